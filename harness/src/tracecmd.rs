//! `vh trace <in.ndjson> <out.ndjson>`: like `vh sql` (disk engine), but each case also returns
//! the full hook event trace (gate arrivals and lock-protected events).

use std::io::{BufRead, Write};

use serde_json::json;

use crate::hk::Rec;
use crate::sqlrun::{Case, run_case};

pub fn main(args: &[String]) -> i32 {
    let input = std::fs::File::open(&args[0]).expect("open input");
    let mut out = std::io::BufWriter::new(std::fs::File::create(&args[1]).expect("create output"));
    let rec = Rec::install();
    rec.set_record(true);
    for line in std::io::BufReader::new(input).lines() {
        let line = line.unwrap();
        if line.trim().is_empty() {
            continue;
        }
        let case: Case = serde_json::from_str(&line).expect("case json");
        let rt = tokio::runtime::Builder::new_current_thread()
            .enable_all()
            .start_paused(true)
            .build()
            .unwrap();
        rec.take_events();
        let v = rt.block_on(async {
            risinglight::verif::adopt("s1");
            run_case(&case, &rec).await
        });
        drop(rt);
        let ev = rec.take_events();
        let mut v = v;
        v["trace"] = json!(ev.iter().map(|e| e.to_json()).collect::<Vec<_>>());
        writeln!(out, "{}", v).unwrap();
    }
    out.flush().unwrap();
    0
}
