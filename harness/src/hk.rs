//! The harness side of the verification hooks: event recording, gating, crash snapshots, faults.

use std::collections::HashSet;
use std::path::{Path, PathBuf};
use std::sync::{Arc, Mutex};

use risinglight::verif::{Args, Fault, Hooks};
use serde_json::{Value, json};
use tokio::sync::{mpsc, oneshot};

#[derive(Clone, Debug)]
pub struct Event {
    pub seq: u64,
    pub actor: String,
    pub label: &'static str,
    pub args: Vec<(&'static str, i64)>,
}

impl Event {
    pub fn arg(&self, k: &str) -> Option<i64> {
        self.args.iter().find(|(n, _)| *n == k).map(|(_, v)| *v)
    }
    pub fn to_json(&self) -> Value {
        let mut m = serde_json::Map::new();
        m.insert("seq".into(), json!(self.seq));
        m.insert("actor".into(), json!(self.actor));
        m.insert("ev".into(), json!(self.label));
        for (k, v) in &self.args {
            m.insert((*k).into(), json!(v));
        }
        Value::Object(m)
    }
}

pub struct Parked {
    pub actor: String,
    pub label: &'static str,
    pub args: Vec<(&'static str, i64)>,
    pub tx: oneshot::Sender<()>,
}

/// What to do at a crash point.
pub type CrashFn = Box<dyn FnMut(&'static str, &Path, &[u8]) + Send>;
/// Which fault to inject: (actor, op, chunk) -> fault.
pub type FaultFn = Box<dyn FnMut(&str, &str, usize) -> Option<Fault> + Send>;

#[derive(Default)]
struct Inner {
    seq: u64,
    events: Vec<Event>,
    record: bool,
    /// labels that park (None = no gating at all)
    gated: Option<HashSet<&'static str>>,
    /// actors (prefix match on the part before '/') that are gated; empty = all
    arrivals: Option<mpsc::UnboundedSender<Parked>>,
    crash: Option<CrashFn>,
    fault: Option<FaultFn>,
}

#[derive(Default)]
pub struct Rec {
    inner: Mutex<Inner>,
    stall: Mutex<Option<(&'static str, u64)>>,
}

impl Rec {
    pub fn install() -> Arc<Rec> {
        let rec = Arc::new(Rec::default());
        risinglight::verif::install(Some(rec.clone()));
        rec
    }
    pub fn uninstall() {
        risinglight::verif::install(None);
    }
    pub fn set_record(&self, on: bool) {
        self.inner.lock().unwrap().record = on;
    }
    pub fn take_events(&self) -> Vec<Event> {
        std::mem::take(&mut self.inner.lock().unwrap().events)
    }
    pub fn count(&self, label: &str) -> usize {
        let g = self.inner.lock().unwrap();
        g.events.iter().filter(|e| e.label == label).count()
    }
    pub fn set_stall(&self, s: Option<(&'static str, u64)>) {
        *self.stall.lock().unwrap() = s;
    }
    pub fn set_crash(&self, f: Option<CrashFn>) {
        self.inner.lock().unwrap().crash = f;
    }
    pub fn set_fault(&self, f: Option<FaultFn>) {
        self.inner.lock().unwrap().fault = f;
    }
    /// Start gating the given labels; returns the controller.
    pub fn start_gating(&self, labels: &[&'static str]) -> Controller {
        let (tx, rx) = mpsc::unbounded_channel();
        let mut g = self.inner.lock().unwrap();
        g.gated = Some(labels.iter().copied().collect());
        g.arrivals = Some(tx);
        Controller {
            rx,
            parked: vec![],
        }
    }
    pub fn ungate(&self) {
        let mut g = self.inner.lock().unwrap();
        g.gated = None;
        g.arrivals = None;
    }
    /// Record an event from the harness itself.
    pub fn note(&self, actor: &str, label: &'static str, args: Args<'_>) {
        self.event(actor, label, args);
    }
}

impl Hooks for Rec {
    fn event(&self, actor: &str, label: &'static str, args: Args<'_>) {
        // free-running multi-threaded runs: hold the calling thread for a moment at the labels asked for
        // (widens a window between two steps of the code under test, it does not create one)
        if let Some((l, us)) = *self.stall.lock().unwrap() {
            if l == label {
                std::thread::sleep(std::time::Duration::from_micros(us));
            }
        }
        let mut g = self.inner.lock().unwrap();
        if !g.record {
            return;
        }
        g.seq += 1;
        let seq = g.seq;
        g.events.push(Event {
            seq,
            actor: actor.to_string(),
            label,
            args: args.to_vec(),
        });
    }

    fn gate(
        &self,
        actor: &str,
        label: &'static str,
        args: Args<'_>,
    ) -> Option<oneshot::Receiver<()>> {
        let mut g = self.inner.lock().unwrap();
        if g.record {
            g.seq += 1;
            let seq = g.seq;
            g.events.push(Event {
                seq,
                actor: actor.to_string(),
                label,
                args: args.to_vec(),
            });
        }
        let gated = g.gated.as_ref()?;
        if !gated.contains(label) {
            return None;
        }
        let arrivals = g.arrivals.as_ref()?;
        let (tx, rx) = oneshot::channel();
        let _ = arrivals.send(Parked {
            actor: actor.to_string(),
            label,
            args: args.to_vec(),
            tx,
        });
        Some(rx)
    }

    fn crash_point(&self, label: &'static str, path: &Path, bytes: &[u8]) {
        // take the callback out so that it may run without the lock
        let f = self.inner.lock().unwrap().crash.take();
        if let Some(mut f) = f {
            f(label, path, bytes);
            let mut g = self.inner.lock().unwrap();
            if g.crash.is_none() {
                g.crash = Some(f);
            }
        }
    }

    fn fault(&self, actor: &str, op: &str, chunk: usize) -> Option<Fault> {
        let mut g = self.inner.lock().unwrap();
        match g.fault.as_mut() {
            Some(f) => f(actor, op, chunk),
            None => None,
        }
    }
}

/// Deterministic scheduler over parked actors (current-thread runtime, paused clock).
pub struct Controller {
    rx: mpsc::UnboundedReceiver<Parked>,
    pub parked: Vec<Parked>,
}

impl Controller {
    /// Collect arrivals until every task is idle (the 1 ms *virtual* timer only fires then).
    pub async fn settle(&mut self) {
        loop {
            tokio::select! {
                biased;
                p = self.rx.recv() => match p {
                    Some(p) => self.parked.push(p),
                    None => break,
                },
                _ = tokio::time::sleep(std::time::Duration::from_millis(1)) => break,
            }
        }
    }

    /// Session part of an actor name: `s1/6.scan` -> `s1`.
    pub fn root(actor: &str) -> &str {
        actor.split('/').next().unwrap_or(actor)
    }

    /// Release the oldest parked entry whose root actor is `actor`. Returns (actor, label).
    pub fn release(&mut self, actor: &str) -> Option<(String, &'static str)> {
        let idx = self
            .parked
            .iter()
            .position(|p| Self::root(&p.actor) == actor)?;
        let p = self.parked.remove(idx);
        let _ = p.tx.send(());
        Some((p.actor, p.label))
    }

    /// Release the oldest parked entry satisfying the predicate.
    pub fn release_where(
        &mut self,
        pred: impl Fn(&Parked) -> bool,
    ) -> Option<(String, &'static str)> {
        let idx = self.parked.iter().position(pred)?;
        let p = self.parked.remove(idx);
        let _ = p.tx.send(());
        Some((p.actor, p.label))
    }

    pub fn is_parked(&self, actor: &str) -> bool {
        self.parked.iter().any(|p| Self::root(&p.actor) == actor)
    }

    pub fn parked_label(&self, actor: &str) -> Option<&'static str> {
        self.parked
            .iter()
            .find(|p| Self::root(&p.actor) == actor)
            .map(|p| p.label)
    }

    /// Release everything repeatedly until nothing arrives any more.
    pub async fn drain(&mut self, keep: impl Fn(&Parked) -> bool) {
        loop {
            self.settle().await;
            let mut any = false;
            let mut i = 0;
            while i < self.parked.len() {
                if keep(&self.parked[i]) {
                    i += 1;
                } else {
                    let p = self.parked.remove(i);
                    let _ = p.tx.send(());
                    any = true;
                }
            }
            if !any {
                break;
            }
        }
    }
}

/// A scratch directory under /dev/shm, removed on drop.
pub struct Scratch(pub PathBuf);
impl Scratch {
    pub fn new(tag: &str) -> Self {
        use std::sync::atomic::{AtomicU64, Ordering};
        static N: AtomicU64 = AtomicU64::new(0);
        let base = if Path::new("/dev/shm").is_dir() {
            PathBuf::from("/dev/shm")
        } else {
            std::env::temp_dir()
        };
        let p = base.join(format!(
            "verif-{}-{}-{}",
            std::process::id(),
            tag,
            N.fetch_add(1, Ordering::SeqCst)
        ));
        let _ = std::fs::remove_dir_all(&p);
        std::fs::create_dir_all(&p).unwrap();
        Scratch(p)
    }
    pub fn path(&self) -> &Path {
        &self.0
    }
}
impl Drop for Scratch {
    fn drop(&mut self) {
        let _ = std::fs::remove_dir_all(&self.0);
    }
}

pub fn copy_dir(src: &Path, dst: &Path) {
    std::fs::create_dir_all(dst).unwrap();
    if let Ok(rd) = std::fs::read_dir(src) {
        for e in rd.flatten() {
            let p = e.path();
            let d = dst.join(e.file_name());
            if p.is_dir() {
                copy_dir(&p, &d);
            } else {
                let _ = std::fs::copy(&p, &d);
            }
        }
    }
}
