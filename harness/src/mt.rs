//! Free-running driver (`vh mt in out`): the same statement executed repeatedly on a multi-threaded
//! tokio runtime; the schedule of the operator tasks is whatever the workers make of it.  Every run
//! must return the complete answer (Pipeline.tla: OkIsComplete) -- the answer of the first,
//! single-threaded run.
//!
//! Case: {"id", "engine", "setup": [sql..], "sql": "...", "runs": n, "workers": k}
use std::io::{BufRead, Write};

use serde::Deserialize;
use serde_json::{json, Value};

use crate::db;
use crate::hk::{Rec, Scratch};

#[derive(Deserialize)]
struct Case {
    id: Value,
    engine: String,
    setup: Vec<String>,
    sql: String,
    runs: usize,
    workers: usize,
    #[serde(default)]
    par: usize,
    /// microseconds to hold a thread between spawning an operator task and deactivating its receiver
    #[serde(default)]
    stall_us: u64,
}

fn key(r: &Value) -> Vec<String> {
    let mut v: Vec<String> = r["rows"]
        .as_array()
        .map(|a| a.iter().map(|x| x.to_string()).collect())
        .unwrap_or_default();
    v.sort();
    v
}

async fn run_case(case: &Case, scratch: &Scratch, rec: &Rec) -> Value {
    let d = if case.engine == "disk" {
        match db::open_disk(&scratch.path().join("db"), &Default::default()).await {
            Ok(d) => d,
            Err(e) => return json!({"id": case.id, "fatal": e}),
        }
    } else {
        std::sync::Arc::new(risinglight::Database::new_in_memory())
    };
    for s in &case.setup {
        let r = db::run_stmt(&d, s).await;
        if r["ok"] != json!(true) {
            return json!({"id": case.id, "fatal": format!("setup `{s}` failed: {r}")});
        }
    }
    // the reference answer is taken without the stall
    let first = db::run_stmt(&d, &case.sql).await;
    let want = key(&first);
    rec.set_stall(if case.stall_us > 0 { Some(("spawn.spawned", case.stall_us)) } else { None });
    let mut bad = vec![];
    let mut done = 0usize;
    // `par` sessions at a time, each on its own task, so that operator tasks are spawned from worker
    // threads that compete for the cores
    let par = case.par.max(1);
    let mut i = 0;
    while i < case.runs && bad.len() < 5 {
        if par == 1 {
            // issued from the thread that drives the runtime (block_on), as an embedding application or
            // the CLI does: operator tasks go to the injection queue and start on any idle worker at once
            let r = db::run_stmt(&d, &case.sql).await;
            done += 1;
            if r["ok"] != first["ok"] || key(&r) != want {
                bad.push(json!({"run": i, "ok": r["ok"], "rows": r["rows"].as_array().map(|a| a.len()),
                                "err": r["err"]}));
            }
            i += 1;
            continue;
        }
        let mut hs = vec![];
        for _ in 0..par {
            let d2 = d.clone();
            let sql = case.sql.clone();
            hs.push(tokio::spawn(async move { db::run_stmt(&d2, &sql).await }));
        }
        for h in hs {
            let r = match h.await {
                Ok(r) => r,
                Err(e) => json!({"ok": false, "err": e.to_string(), "panic": true}),
            };
            done += 1;
            if r["ok"] != first["ok"] || key(&r) != want {
                bad.push(json!({"run": i, "ok": r["ok"], "rows": r["rows"].as_array().map(|a| a.len()),
                                "err": r["err"]}));
            }
            i += 1;
        }
    }
    if case.engine == "disk" {
        let _ = db::shutdown(&d).await;
    }
    json!({"id": case.id, "first_ok": first["ok"], "first_rows": want.len(), "runs": done, "bad": bad})
}

pub fn main(args: &[String]) -> i32 {
    let input = std::fs::File::open(&args[0]).expect("open input");
    let mut out = std::io::BufWriter::new(std::fs::File::create(&args[1]).expect("create output"));
    let rec = Rec::install();
    rec.set_record(false);
    for line in std::io::BufReader::new(input).lines() {
        let line = line.unwrap();
        if line.trim().is_empty() {
            continue;
        }
        let case: Case = serde_json::from_str(&line).expect("case json");
        rec.set_stall(None);
        let rt = tokio::runtime::Builder::new_multi_thread()
            .worker_threads(case.workers.max(2))
            .enable_all()
            .build()
            .unwrap();
        let guard = crate::watchdog::arm(&args[1], &case.id);
        let scratch = Scratch::new("mt");
        let v = rt.block_on(run_case(&case, &scratch, &rec));
        rec.set_stall(None);
        drop(guard);
        rt.shutdown_background();
        writeln!(out, "{v}").unwrap();
        out.flush().unwrap();
    }
    0
}
