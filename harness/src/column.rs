//! `vh column <in.ndjson> <out.ndjson>`: C06. Build one column with explicit type / encoding /
//! block size from the given value sequence, then read it with a seeded program of
//! `next_batch(n)` and `skip(k)` calls starting at a given row; every call and what it returned
//! is recorded for validation against Column.tla.
//!
//! Case: {"id", "ty", "nullable", "encode", "block", "chunks": [[value..]..], "start", "seed"}
//! values: ["n",0] | ["i",k] | ["b",0|1] | ["s",[codes]] | ["x","text"] (parsed per type)

use std::io::{BufRead, Write};

use risinglight::storage::verif_api::{ReadOp, build_column, build_fixed_char_column};
use risinglight::types::{DataType, DataValue};
use serde::Deserialize;
use serde_json::{Value, json};

use crate::enc;

#[derive(Deserialize)]
struct Case {
    id: Value,
    ty: String,
    nullable: bool,
    encode: String,
    block: usize,
    chunks: Vec<Vec<Value>>,
    start: u32,
    seed: u64,
    /// fixed-width CHAR column of this width (type must be varchar)
    #[serde(default)]
    char_width: u64,
}

fn data_type(ty: &str) -> DataType {
    match ty {
        "smallint" => DataType::Int16,
        "int" => DataType::Int32,
        "bigint" => DataType::Int64,
        "bool" => DataType::Bool,
        "double" => DataType::Float64,
        "varchar" => DataType::String,
        "decimal" => DataType::Decimal(None, None),
        "date" => DataType::Date,
        "blob" => DataType::Blob,
        "interval" => DataType::Interval,
        "timestamp" => DataType::Timestamp,
        other => panic!("unknown type {other}"),
    }
}

fn value(v: &Value, ty: &DataType) -> DataValue {
    let tag = v[0].as_str().unwrap();
    match tag {
        "n" => DataValue::Null,
        "b" => DataValue::Bool(v[1].as_i64().unwrap() != 0),
        "i" => {
            let k = v[1].as_i64().unwrap();
            match ty {
                DataType::Int16 => DataValue::Int16(k as i16),
                DataType::Int32 => DataValue::Int32(k as i32),
                _ => DataValue::Int64(k),
            }
        }
        "s" => DataValue::String(
            v[1].as_array()
                .unwrap()
                .iter()
                .map(|c| char::from_u32(c.as_u64().unwrap() as u32).unwrap())
                .collect::<String>()
                .into(),
        ),
        "x" => {
            let t = v[1].as_str().unwrap();
            match ty {
                DataType::Int64 => DataValue::Int64(t.parse().unwrap()),
                DataType::Float64 => DataValue::Float64(t.parse::<f64>().unwrap().into()),
                DataType::Decimal(_, _) => DataValue::Decimal(t.parse().unwrap()),
                DataType::Date => DataValue::Date(t.parse().unwrap()),
                DataType::Blob => DataValue::Blob(t.parse().unwrap()),
                DataType::Interval => DataValue::Interval(t.parse().unwrap()),
                DataType::Timestamp => DataValue::Timestamp(t.parse().unwrap()),
                _ => panic!("cannot parse {t} as {ty:?}"),
            }
        }
        _ => panic!("bad value tag"),
    }
}

struct Lcg(u64);
impl Lcg {
    fn next(&mut self, n: u64) -> u64 {
        self.0 = self.0.wrapping_mul(6364136223846793005).wrapping_add(1442695040888963407);
        (self.0 >> 33) % n.max(1)
    }
}

async fn run_case(case: &Case) -> Value {
    let ty = data_type(&case.ty);
    let chunks: Vec<Vec<DataValue>> = case
        .chunks
        .iter()
        .map(|c| c.iter().map(|v| value(v, &ty)).collect())
        .collect();
    let total: usize = chunks.iter().map(|c| c.len()).sum();
    let built = if case.char_width > 0 {
        build_fixed_char_column(case.char_width, case.nullable, &case.encode, case.block, &chunks, case.start).await
    } else {
        build_column(ty.clone(), case.nullable, &case.encode, case.block, &chunks, case.start).await
    };
    let mut col = match built {
        Ok(c) => c,
        Err(e) => return json!({"id": case.id, "build_err": e.to_string()}),
    };
    let mut rng = Lcg(case.seed);
    let mut events = vec![];
    let mut pos = case.start as usize;
    let mut last_skip = false;
    for _ in 0..400 {
        let remaining = total.saturating_sub(pos);
        // skips come in bursts (a skip directly after a skip) and in three sizes: within a block,
        // over a few blocks, far ahead
        let want_skip = if last_skip { rng.next(2) == 0 } else { rng.next(4) == 0 };
        last_skip = false;
        let op = if remaining > 1 && want_skip {
            last_skip = true;
            let cap = match rng.next(10) {
                0..=4 => 9,
                5..=7 => 40,
                _ => if total > 5000 { 30000 } else { 250 },
            };
            ReadOp::Skip(1 + rng.next((remaining as u64 - 1).min(cap)) as usize)
        } else {
            if total > 5000 {
                ReadOp::Next([0usize, 1, 17, 1024, 4096, 4096, 9000][rng.next(7) as usize])
            } else {
                ReadOp::Next([0usize, 1, 2, 3, 5, 17, 64][rng.next(7) as usize])
            }
        };
        match col.step(op).await {
            Err(e) => {
                events.push(json!({"op": "error", "err": e.to_string()}));
                break;
            }
            Ok(r) => match op {
                ReadOp::Skip(k) => {
                    pos += k;
                    events.push(json!({"op": "skip", "n": k, "row_id": 0, "vals": []}));
                }
                ReadOp::Next(n) => match r {
                    None => {
                        events.push(json!({"op": "end", "n": n, "row_id": 0, "vals": []}));
                        break;
                    }
                    Some((row_id, vals)) => {
                        pos = row_id as usize + vals.len();
                        events.push(json!({"op": "next", "n": n, "row_id": row_id,
                            "vals": vals.iter().map(enc::enc_value).collect::<Vec<_>>()}));
                    }
                },
            },
        }
    }
    let written: Vec<Value> = chunks.iter().flatten().map(enc::enc_value).collect();
    json!({"id": case.id, "blocks": col.blocks, "events": events, "written": written})
}

pub fn main(args: &[String]) -> i32 {
    let input = std::fs::File::open(&args[0]).expect("open input");
    let mut out = std::io::BufWriter::new(std::fs::File::create(&args[1]).expect("create output"));
    for line in std::io::BufReader::new(input).lines() {
        let line = line.unwrap();
        if line.trim().is_empty() {
            continue;
        }
        let case: Case = serde_json::from_str(&line).expect("case json");
        let rt = tokio::runtime::Builder::new_current_thread().enable_all().build().unwrap();
        let guard = crate::watchdog::arm(&args[1], &case.id);
        let v = match std::panic::catch_unwind(std::panic::AssertUnwindSafe(|| rt.block_on(run_case(&case)))) {
            Ok(v) => v,
            Err(e) => json!({"id": case.id, "panic": enc::panic_msg(e)}),
        };
        drop(guard);
        writeln!(out, "{}", v).unwrap();
        out.flush().unwrap();
    }
    0
}
