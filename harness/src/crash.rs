//! `vh crash <in.ndjson> <out.ndjson>`: run a workload once with crash hooks armed, snapshot the
//! database directory at every persistence step (plus torn prefixes of the write in flight),
//! then boot the real recovery code on every snapshot, probe it, and boot it again.
//!
//! Case: {"id", "opts", "steps":[...as `vh sql`...], "tables":["a","b"], "probe":[sql...],
//!        "prefix_mode":"quick"|"all", "depth":1|2}

use std::io::{BufRead, Write};
use std::path::{Path, PathBuf};
use std::sync::{Arc, Mutex};
use std::time::Duration;

use serde::Deserialize;
use serde_json::{Value, json};

use crate::db::{self, DiskOpts};
use crate::hk::{Rec, Scratch, copy_dir};

#[derive(Deserialize)]
struct Case {
    id: Value,
    #[serde(default)]
    opts: DiskOpts,
    steps: Vec<Value>,
    tables: Vec<String>,
    #[serde(default)]
    probe: Vec<String>,
    #[serde(default)]
    prefix_mode: String,
    #[serde(default = "one")]
    depth: usize,
}
fn one() -> usize {
    1
}

#[derive(Clone, Debug)]
struct Snap {
    dir: PathBuf,
    label: &'static str,
    step: usize,
    path: String,
    variant: String,
}

struct Shared {
    scratch: PathBuf,
    dbdir: PathBuf,
    n: usize,
    step: usize,
    snaps: Vec<Snap>,
    in_rewrite: bool,
    prefix_all: bool,
    labels: Vec<(&'static str, usize)>,
}

fn prefixes(bytes: &[u8], all: bool, json_records: bool) -> Vec<usize> {
    let n = bytes.len();
    if n == 0 {
        return vec![];
    }
    let mut ks: Vec<usize> = vec![];
    if all {
        ks.extend(1..n);
    } else {
        ks.extend([1, n / 2, n - 1]);
        if json_records {
            // record boundaries: positions after each top-level JSON value, +-1
            let mut depth = 0i32;
            let mut in_str = false;
            let mut esc = false;
            for (i, b) in bytes.iter().enumerate() {
                if in_str {
                    if esc {
                        esc = false;
                    } else if *b == b'\\' {
                        esc = true;
                    } else if *b == b'"' {
                        in_str = false;
                        if depth == 0 {
                            ks.extend([i, i + 1, i + 2]);
                        }
                    }
                } else {
                    match b {
                        b'"' => in_str = true,
                        b'{' => depth += 1,
                        b'}' => {
                            depth -= 1;
                            if depth == 0 {
                                ks.extend([i, i + 1, i + 2]);
                            }
                        }
                        _ => {}
                    }
                }
            }
        }
    }
    ks.retain(|k| *k >= 1 && *k < n);
    ks.sort();
    ks.dedup();
    ks
}

fn arm(rec: &Rec, sh: Arc<Mutex<Shared>>) {
    rec.set_crash(Some(Box::new(move |label, path, bytes| {
        let mut g = sh.lock().unwrap();
        match label {
            "rewrite.tmp_created" => g.in_rewrite = true,
            "rewrite.renamed" => g.in_rewrite = false,
            _ => {}
        }
        let step = g.step;
        g.labels.push((label, step));
        let k = g.n;
        g.n += 1;
        let dir = g.scratch.join(format!("s{k}"));
        copy_dir(&g.dbdir, &dir);
        let rel = path
            .strip_prefix(&g.dbdir)
            .map(|p| p.to_string_lossy().to_string())
            .unwrap_or_default();
        g.snaps.push(Snap {
            dir: dir.clone(),
            label,
            step,
            path: rel.clone(),
            variant: "whole".into(),
        });
        // the write in flight: materialise torn prefixes
        if !bytes.is_empty() {
            let (target, is_manifest) = if label == "manifest.append.before" {
                let f = if g.in_rewrite {
                    "manifest.tmp.json"
                } else {
                    "manifest.json"
                };
                (PathBuf::from(f), true)
            } else {
                (PathBuf::from(&rel), false)
            };
            for p in prefixes(bytes, g.prefix_all, is_manifest) {
                let d = g.scratch.join(format!("s{k}p{p}"));
                copy_dir(&dir, &d);
                let file = d.join(&target);
                let mut old = std::fs::read(&file).unwrap_or_default();
                old.extend_from_slice(&bytes[..p]);
                std::fs::write(&file, old).unwrap();
                g.snaps.push(Snap {
                    dir: d,
                    label,
                    step,
                    path: target.to_string_lossy().to_string(),
                    variant: format!("torn{p}/{}", bytes.len()),
                });
            }
        }
    })));
}

async fn probe_tables(d: &risinglight::Database, tables: &[String]) -> Value {
    let mut m = serde_json::Map::new();
    for t in tables {
        let r = db::run_stmt(d, &format!("select a, b from {t}")).await;
        m.insert(t.clone(), r);
    }
    Value::Object(m)
}

async fn evaluate(snap_dir: &Path, case: &Case, rot: usize, redo: Option<&str>) -> Value {
    let mut out = serde_json::Map::new();
    let d = match db::open_disk(snap_dir, &case.opts).await {
        Ok(d) => d,
        Err(e) => {
            out.insert("boot_ok".into(), json!(false));
            out.insert("boot_err".into(), json!(e));
            return Value::Object(out);
        }
    };
    out.insert("boot_ok".into(), json!(true));
    out.insert("state".into(), probe_tables(&d, &case.tables).await);
    // the recovered store must accept new statements
    // an interrupted DELETE is issued again: it must be accepted (it removes what is left to remove)
    if let Some(sql) = redo {
        // (a DELETE that overlaps a compaction of its table is refused with a conflict, NotFound("rowset"),
        // and is to be retried by the client: the compactor runs right after boot)
        let mut r = db::run_stmt(&d, sql).await;
        for _ in 0..3 {
            let conflict = r["ok"] != json!(true)
                && r["err"].as_str().map(|e| e.contains("NotFound(\"rowset\"")).unwrap_or(false);
            if !conflict {
                break;
            }
            tokio::time::sleep(Duration::from_millis(1002)).await;
            r = db::run_stmt(&d, sql).await;
        }
        out.insert("redo".into(), r);
        out.insert("state_after_redo".into(), probe_tables(&d, &case.tables).await);
    }
    // the probe comes in groups of statements separated by "--"; the order of the groups rotates from snapshot
    // to snapshot, so that the first statement that creates a row-set after recovery is not always the same
    let mut groups: Vec<Vec<&String>> = vec![vec![]];
    for sql in &case.probe {
        if sql == "--" {
            groups.push(vec![]);
        } else {
            groups.last_mut().unwrap().push(sql);
        }
    }
    groups.retain(|g| !g.is_empty());
    if !groups.is_empty() {
        let k = rot % groups.len();
        groups.rotate_left(k);
    }
    let mut pr = vec![];
    let mut pr_sql = vec![];
    for sql in groups.into_iter().flatten() {
        let mut r = db::run_stmt(&d, sql).await;
        // (the same conflict as above: the compactor that starts after boot may be merging the table's row-sets)
        for _ in 0..3 {
            let conflict = sql.trim_start().to_lowercase().starts_with("delete")
                && r["ok"] != json!(true)
                && r["err"].as_str().map(|e| e.contains("NotFound(\"rowset\"")).unwrap_or(false);
            if !conflict {
                break;
            }
            tokio::time::sleep(Duration::from_millis(1002)).await;
            r = db::run_stmt(&d, sql).await;
        }
        pr.push(r);
        pr_sql.push(sql.clone());
    }
    out.insert("probe".into(), json!(pr));
    out.insert("probe_sql".into(), json!(pr_sql));
    out.insert("state_after_probe".into(), probe_tables(&d, &case.tables).await);
    // one compactor pass must not disturb it either
    tokio::time::sleep(Duration::from_millis(1002)).await;
    let _ = db::shutdown(&d).await;
    drop(d);
    tokio::time::sleep(Duration::from_millis(1)).await;
    match db::open_disk(snap_dir, &case.opts).await {
        Ok(d2) => {
            out.insert("reboot_ok".into(), json!(true));
            out.insert("state2".into(), probe_tables(&d2, &case.tables).await);
            let _ = db::shutdown(&d2).await;
        }
        Err(e) => {
            out.insert("reboot_ok".into(), json!(false));
            out.insert("reboot_err".into(), json!(e));
        }
    }
    Value::Object(out)
}

async fn run_case(case: &Case, rec: &Rec) -> Value {
    let scratch = Scratch::new("crash");
    let dbdir = scratch.path().join("db");
    let sh = Arc::new(Mutex::new(Shared {
        scratch: scratch.path().to_path_buf(),
        dbdir: dbdir.clone(),
        n: 0,
        step: 0,
        snaps: vec![],
        in_rewrite: false,
        prefix_all: case.prefix_mode == "all",
        labels: vec![],
    }));
    arm(rec, sh.clone());
    // ---- the workload, with crash points armed
    let mut res = vec![];
    let mut d = match db::open_disk(&dbdir, &case.opts).await {
        Ok(d) => Some(d),
        Err(e) => {
            rec.set_crash(None);
            return json!({"id": case.id, "fatal": e});
        }
    };
    for (i, step) in case.steps.iter().enumerate() {
        sh.lock().unwrap().step = i + 1;
        if let Some(sql) = step.get("sql").and_then(|s| s.as_str()) {
            match &d {
                Some(d) => res.push(db::run_stmt(d, sql).await),
                None => res.push(json!({"ok": false, "err": "closed"})),
            }
            // background work triggered by the statement (vacuum) belongs to it
            tokio::time::sleep(Duration::from_millis(1)).await;
            continue;
        }
        match step.get("op").and_then(|s| s.as_str()).unwrap_or("") {
            "compact" => {
                tokio::time::sleep(Duration::from_millis(1002)).await;
                res.push(json!({"ok": true}));
            }
            "reopen" => {
                if let Some(dd) = d.take() {
                    let _ = db::shutdown(&dd).await;
                }
                tokio::time::sleep(Duration::from_millis(1)).await;
                match db::open_disk(&dbdir, &case.opts).await {
                    Ok(x) => {
                        d = Some(x);
                        res.push(json!({"ok": true}));
                    }
                    Err(e) => res.push(json!({"ok": false, "err": e})),
                }
            }
            _ => res.push(json!({"ok": false, "err": "unknown op"})),
        }
    }
    if let Some(dd) = d.take() {
        let _ = db::shutdown(&dd).await;
    }
    tokio::time::sleep(Duration::from_millis(1)).await;
    rec.set_crash(None);
    let (snaps, labels) = {
        let g = sh.lock().unwrap();
        (g.snaps.clone(), g.labels.clone())
    };
    // ---- recovery from every snapshot
    let mut outs = vec![];
    for s in &snaps {
        let mut second = vec![];
        if case.depth >= 2 && s.variant == "whole" {
            // crash again during the recovery of this snapshot
            let sh2 = Arc::new(Mutex::new(Shared {
                scratch: s.dir.with_extension("again"),
                dbdir: s.dir.clone(),
                n: 0,
                step: s.step,
                snaps: vec![],
                in_rewrite: false,
                prefix_all: false,
                labels: vec![],
            }));
            let probe_dir = s.dir.with_extension("bootcopy");
            copy_dir(&s.dir, &probe_dir);
            sh2.lock().unwrap().dbdir = probe_dir.clone();
            arm(rec, sh2.clone());
            if let Ok(dd) = db::open_disk(&probe_dir, &case.opts).await {
                let _ = db::shutdown(&dd).await;
            }
            tokio::time::sleep(Duration::from_millis(1)).await;
            rec.set_crash(None);
            let snaps2 = sh2.lock().unwrap().snaps.clone();
            for s2 in &snaps2 {
                let mut v = evaluate(&s2.dir, case, second.len(), None).await;
                v["label"] = json!(s2.label);
                v["variant"] = json!(s2.variant);
                second.push(v);
            }
        }
        let redo = if s.step >= 1 {
            case.steps
                .get(s.step - 1)
                .and_then(|st| st.get("sql"))
                .and_then(|x| x.as_str())
                .filter(|x| x.starts_with("delete"))
        } else {
            None
        };
        let mut v = evaluate(&s.dir, case, outs.len(), redo).await;
        v["label"] = json!(s.label);
        v["step"] = json!(s.step);
        v["path"] = json!(s.path);
        v["variant"] = json!(s.variant);
        if !second.is_empty() {
            v["second"] = json!(second);
        }
        outs.push(v);
    }
    json!({"id": case.id, "res": res, "snaps": outs,
           "labels": labels.iter().map(|(l, s)| json!([l, s])).collect::<Vec<_>>()})
}

pub fn main(args: &[String]) -> i32 {
    let input = std::fs::File::open(&args[0]).expect("open input");
    let mut out = std::io::BufWriter::new(std::fs::File::create(&args[1]).expect("create output"));
    let rec = Rec::install();
    rec.set_record(false);
    for line in std::io::BufReader::new(input).lines() {
        let line = line.unwrap();
        if line.trim().is_empty() {
            continue;
        }
        let case: Case = serde_json::from_str(&line).expect("case json");
        let rt = tokio::runtime::Builder::new_current_thread()
            .enable_all()
            .start_paused(true)
            .build()
            .unwrap();
        let v = rt.block_on(run_case(&case, &rec));
        drop(rt);
        writeln!(out, "{}", v).unwrap();
    }
    out.flush().unwrap();
    0
}
