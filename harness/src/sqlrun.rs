//! `vh sql <in.ndjson> <out.ndjson>`: run statement sequences on the memory or disk engine.
//!
//! Steps: {"sql": "..."} | {"op":"compact"} (one compactor + vacuum pass, paused clock)
//!      | {"op":"reopen"} (shutdown, boot) | {"op":"state"} (version-manager state, file listing)

use std::io::{BufRead, Write};
use std::sync::Arc;
use std::time::Duration;

use risinglight::Database;
use risinglight::storage::StorageImpl;
use serde::Deserialize;
use serde_json::{Value, json};

use crate::db::{self, DiskOpts};
use crate::hk::{Rec, Scratch};

#[derive(Deserialize)]
pub struct Case {
    pub id: Value,
    #[serde(default)]
    pub engine: String,
    #[serde(default)]
    pub opts: DiskOpts,
    pub steps: Vec<Value>,
}

pub fn list_files(dir: &std::path::Path) -> Vec<String> {
    let mut out = vec![];
    fn walk(base: &std::path::Path, d: &std::path::Path, out: &mut Vec<String>) {
        if let Ok(rd) = std::fs::read_dir(d) {
            for e in rd.flatten() {
                let p = e.path();
                let rel = p.strip_prefix(base).unwrap().to_string_lossy().to_string();
                if p.is_dir() {
                    out.push(format!("{rel}/"));
                    walk(base, &p, out);
                } else {
                    out.push(rel);
                }
            }
        }
    }
    walk(dir, dir, &mut out);
    out.sort();
    out
}

pub fn storage_state(db: &Database) -> Value {
    match db.verif_storage() {
        StorageImpl::SecondaryStorage(s) => {
            let (epoch, pins, dels, rowsets, dvs) = s.verif_state();
            let (nrs, ndv) = s.verif_next_ids();
            json!({"epoch": epoch, "pins": pins, "dels": dels, "rowsets": rowsets, "dvs": dvs,
                   "next_rs": nrs, "next_dv": ndv})
        }
        _ => json!({}),
    }
}

pub async fn run_case(case: &Case, rec: &Rec) -> Value {
    let scratch = Scratch::new("sql");
    let dbdir = scratch.path().join("db");
    let disk = case.engine == "disk";
    let mut db: Option<Arc<Database>> = if disk {
        match db::open_disk(&dbdir, &case.opts).await {
            Ok(d) => Some(d),
            Err(e) => return json!({"id": case.id, "fatal": e}),
        }
    } else {
        Some(Arc::new(Database::new_in_memory()))
    };
    let mut res = vec![];
    for step in &case.steps {
        if let Some(sql) = step.get("sql").and_then(|s| s.as_str()) {
            // `${DIR}` = a scratch directory of this case (COPY TO / FROM)
            let sql = &sql.replace("${DIR}", &scratch.path().to_string_lossy());
            match &db {
                Some(d) => {
                    let mut r = db::run_stmt(d, sql).await;
                    if step.get("stypes").and_then(|b| b.as_bool()).unwrap_or(false) {
                        r["stypes"] = db::static_types(d, sql);
                    }
                    if let Some(p) = step.get("plans").and_then(|b| b.as_array()) {
                        // each entry: {"disk": bool, "mock": {"t1": n, ...}}
                        let mut v = vec![];
                        for cfg in p {
                            let disk_like = cfg["disk"].as_bool().unwrap_or(false);
                            let mock: Vec<(String, u32)> = cfg["mock"]
                                .as_object()
                                .map(|m| {
                                    m.iter()
                                        .map(|(k, n)| (k.clone(), n.as_u64().unwrap_or(0) as u32))
                                        .collect()
                                })
                                .unwrap_or_default();
                            v.push(db::plans(d, sql, disk_like, &mock));
                        }
                        r["plans"] = json!(v);
                    }
                    res.push(r)
                }
                None => res.push(json!({"ok": false, "err": "database not open", "closed": true})),
            }
            continue;
        }
        match step.get("op").and_then(|s| s.as_str()).unwrap_or("") {
            "compact" => {
                if disk && db.is_some() {
                    let before = rec.count("compactor.pass_done");
                    tokio::time::sleep(Duration::from_millis(1001)).await;
                    // let the vacuum finish
                    tokio::time::sleep(Duration::from_millis(1)).await;
                    let after = rec.count("compactor.pass_done");
                    res.push(json!({"ok": true, "passes": after - before}));
                } else {
                    res.push(json!({"ok": true, "passes": 0}));
                }
            }
            "reopen" => {
                if disk {
                    if let Some(d) = db.take() {
                        let r = db::shutdown(&d).await;
                        drop(d);
                        if let Err(e) = r {
                            res.push(json!({"ok": false, "err": e, "phase": "shutdown"}));
                            continue;
                        }
                    }
                    // let aborted tasks go away
                    tokio::time::sleep(Duration::from_millis(1)).await;
                    match db::open_disk(&dbdir, &case.opts).await {
                        Ok(d) => {
                            db = Some(d);
                            res.push(json!({"ok": true}));
                        }
                        Err(e) => res.push(json!({"ok": false, "err": e, "phase": "boot"})),
                    }
                } else {
                    res.push(json!({"ok": true}));
                }
            }
            "readfile" => {
                let name = step.get("name").and_then(|s| s.as_str()).unwrap_or("");
                match std::fs::read(scratch.path().join(name)) {
                    Ok(b) => res.push(json!({"ok": true, "bytes": b})),
                    Err(e) => res.push(json!({"ok": false, "err": e.to_string()})),
                }
            }
            "writefile" => {
                let name = step.get("name").and_then(|s| s.as_str()).unwrap_or("");
                let bytes: Vec<u8> = step
                    .get("bytes")
                    .and_then(|b| b.as_array())
                    .map(|a| a.iter().map(|x| x.as_u64().unwrap_or(0) as u8).collect())
                    .unwrap_or_default();
                match std::fs::write(scratch.path().join(name), bytes) {
                    Ok(()) => res.push(json!({"ok": true})),
                    Err(e) => res.push(json!({"ok": false, "err": e.to_string()})),
                }
            }
            "corrupt" => {
                // alter one stored file: {"path": rel, "pos": i (negative: from the end),
                //   "xor": mask} | {"path", "truncate": new_len (negative: cut that many bytes)}
                let rel = step.get("path").and_then(|s| s.as_str()).unwrap_or("");
                let path = dbdir.join(rel);
                match std::fs::read(&path) {
                    Ok(mut bytes) => {
                        let len = bytes.len() as i64;
                        if let Some(t) = step.get("truncate").and_then(|x| x.as_i64()) {
                            let n = if t < 0 { (len + t).max(0) } else { t.min(len) };
                            bytes.truncate(n as usize);
                        } else {
                            let pos = step.get("pos").and_then(|x| x.as_i64()).unwrap_or(0);
                            let i = if pos < 0 { len + pos } else { pos };
                            let mask = step.get("xor").and_then(|x| x.as_u64()).unwrap_or(1) as u8;
                            if i >= 0 && i < len {
                                bytes[i as usize] ^= mask;
                            }
                        }
                        match std::fs::write(&path, &bytes) {
                            Ok(()) => res.push(json!({"ok": true, "len": len})),
                            Err(e) => res.push(json!({"ok": false, "err": e.to_string()})),
                        }
                    }
                    Err(e) => res.push(json!({"ok": false, "err": e.to_string()})),
                }
            }
            "state" => match &db {
                Some(d) if disk => res.push(
                    json!({"ok": true, "state": storage_state(d), "files": list_files(&dbdir)}),
                ),
                _ => res.push(json!({"ok": true})),
            },
            other => res.push(json!({"ok": false, "err": format!("unknown op {other}")})),
        }
    }
    if let Some(d) = db.take() {
        if disk {
            let _ = db::shutdown(&d).await;
        }
    }
    json!({"id": case.id, "res": res})
}

pub fn main(args: &[String]) -> i32 {
    let input = std::fs::File::open(&args[0]).expect("open input");
    let mut out = std::io::BufWriter::new(std::fs::File::create(&args[1]).expect("create output"));
    let rec = Rec::install();
    rec.set_record(true);
    for line in std::io::BufReader::new(input).lines() {
        let line = line.unwrap();
        if line.trim().is_empty() {
            continue;
        }
        let case: Case = serde_json::from_str(&line).expect("case json");
        let rt = tokio::runtime::Builder::new_current_thread()
            .enable_all()
            .start_paused(true)
            .build()
            .unwrap();
        rec.take_events();
        let guard = crate::watchdog::arm(&args[1], &case.id);
        let v = rt.block_on(run_case(&case, &rec));
        drop(guard);
        drop(rt);
        writeln!(out, "{}", v).unwrap();
        out.flush().unwrap();
    }
    out.flush().unwrap();
    0
}
