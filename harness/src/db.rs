//! Opening databases and running statements with panics turned into data.

use std::path::Path;
use std::sync::Arc;

use futures::FutureExt;
use risinglight::Database;
use risinglight::storage::SecondaryStorageOptions;
use serde::Deserialize;
use serde_json::{Value, json};

use crate::enc;

#[derive(Clone, Debug, Deserialize)]
pub struct DiskOpts {
    #[serde(default = "d_block")]
    pub block: usize,
    #[serde(default = "d_rowset")]
    pub rowset: usize,
    #[serde(default = "d_true")]
    pub checksum: bool,
    #[serde(default = "d_true")]
    pub first_key: bool,
}
fn d_block() -> usize {
    16 * 1024
}
fn d_rowset() -> usize {
    256 << 20
}
fn d_true() -> bool {
    true
}
impl Default for DiskOpts {
    fn default() -> Self {
        DiskOpts {
            block: d_block(),
            rowset: d_rowset(),
            checksum: true,
            first_key: true,
        }
    }
}

pub fn storage_options(path: &Path, o: &DiskOpts) -> SecondaryStorageOptions {
    let mut opts = SecondaryStorageOptions::default_for_cli();
    opts.path = path.to_path_buf();
    opts.target_block_size = o.block.max(24);
    opts.target_rowset_size = o.rowset;
    opts.record_first_key = o.first_key;
    opts.cache_size = 1024;
    if !o.checksum {
        opts.checksum_type = SecondaryStorageOptions::default_for_test().checksum_type;
    }
    opts
}

/// Open a disk database; a panic or error during bootstrap is returned as `Err(message)`.
pub async fn open_disk(path: &Path, o: &DiskOpts) -> Result<Arc<Database>, String> {
    let opts = storage_options(path, o);
    match std::panic::AssertUnwindSafe(Database::new_on_disk(opts))
        .catch_unwind()
        .await
    {
        Ok(db) => Ok(Arc::new(db)),
        Err(e) => Err(enc::panic_msg(e)),
    }
}

/// Outcome of one statement as JSON: {ok, rows, types} | {ok:false, err, panic}.
pub async fn run_stmt(db: &Database, sql: &str) -> Value {
    match std::panic::AssertUnwindSafe(db.run(sql)).catch_unwind().await {
        Ok(Ok(chunks)) => {
            let mut rows = vec![];
            let mut types = vec![];
            for c in &chunks {
                let (r, t) = enc::enc_chunk(c);
                rows.extend(r);
                if types.is_empty() {
                    types = t;
                }
            }
            json!({"ok": true, "rows": rows, "types": types, "nchunks": chunks.len()})
        }
        Ok(Err(e)) => json!({"ok": false, "err": e.to_string(), "panic": false}),
        Err(e) => json!({"ok": false, "err": enc::panic_msg(e), "panic": true}),
    }
}

pub async fn shutdown(db: &Database) -> Result<(), String> {
    match std::panic::AssertUnwindSafe(db.shutdown()).catch_unwind().await {
        Ok(Ok(())) => Ok(()),
        Ok(Err(e)) => Err(e.to_string()),
        Err(e) => Err(enc::panic_msg(e)),
    }
}

/// The column types the binder / type checker derives for a query (C16), as array variant names.
pub fn static_types(db: &Database, sql: &str) -> Value {
    use risinglight::storage::StorageImpl;
    let catalog = match db.verif_storage() {
        StorageImpl::InMemoryStorage(s) => s.catalog().clone(),
        StorageImpl::SecondaryStorage(s) => s.catalog().clone(),
    };
    let r = std::panic::catch_unwind(std::panic::AssertUnwindSafe(|| {
        let stmts = risinglight::parser::parse(sql).map_err(|e| e.to_string())?;
        let stmt = stmts.into_iter().next().ok_or("empty")?;
        let mut binder = risinglight::binder::Binder::new(catalog.clone());
        let plan = binder.bind(stmt).map_err(|e| e.to_string())?;
        let mut egraph = egg::EGraph::new(risinglight::planner::TypeSchemaAnalysis {
            catalog: catalog.clone(),
        });
        let root = egraph.add_expr(&plan);
        let ty = egraph[root].data.type_.clone().map_err(|e| format!("{e:?}"))?;
        let names: Vec<String> = ty
            .as_struct()
            .iter()
            .map(|t| {
                let d = format!("{t:?}");
                d.split('(').next().unwrap_or("").to_string()
            })
            .collect();
        Ok::<_, String>(names)
    }));
    match r {
        Ok(Ok(v)) => json!(v),
        Ok(Err(e)) => json!({"err": e}),
        Err(e) => json!({"err": enc::panic_msg(e), "panic": true}),
    }
}

/// Bound and optimized plan of a statement as s-expressions (C17); `mock` = optional row counts.
pub fn plans(db: &Database, sql: &str, disk_like: bool, mock: &[(String, u32)]) -> Value {
    use risinglight::planner::{Config, Optimizer, Statistics};
    use risinglight::storage::StorageImpl;
    let catalog = match db.verif_storage() {
        StorageImpl::InMemoryStorage(s) => s.catalog().clone(),
        StorageImpl::SecondaryStorage(s) => s.catalog().clone(),
    };
    let r = std::panic::catch_unwind(std::panic::AssertUnwindSafe(|| {
        let stmts = risinglight::parser::parse(sql).map_err(|e| e.to_string())?;
        let stmt = stmts.into_iter().next().ok_or("empty")?;
        let mut binder = risinglight::binder::Binder::new(catalog.clone());
        let plan = binder.bind(stmt).map_err(|e| format!("bind error: {e}"))?;
        let mut stat = Statistics::default();
        for (t, n) in mock {
            if let Some(id) = catalog.get_table_id_by_name("postgres", t) {
                stat.add_row_count(id, *n);
            }
        }
        let opt = Optimizer::new(
            catalog.clone(),
            stat,
            Config {
                enable_range_filter_scan: disk_like,
                table_is_sorted_by_primary_key: disk_like,
            },
        );
        let bound = plan.to_string();
        let optimized = opt.optimize(plan).to_string();
        Ok::<_, String>((bound, optimized))
    }));
    match r {
        Ok(Ok((b, o))) => json!({"bound": b, "opt": o}),
        Ok(Err(e)) => json!({"err": e}),
        Err(e) => json!({"err": enc::panic_msg(e), "panic": true}),
    }
}
