//! Opening databases and running statements with panics turned into data.

use std::path::Path;
use std::sync::Arc;

use futures::FutureExt;
use risinglight::Database;
use risinglight::storage::SecondaryStorageOptions;
use serde::Deserialize;
use serde_json::{Value, json};

use crate::enc;

#[derive(Clone, Debug, Deserialize)]
pub struct DiskOpts {
    #[serde(default = "d_block")]
    pub block: usize,
    #[serde(default = "d_rowset")]
    pub rowset: usize,
    #[serde(default = "d_true")]
    pub checksum: bool,
    #[serde(default = "d_true")]
    pub first_key: bool,
}
fn d_block() -> usize {
    16 * 1024
}
fn d_rowset() -> usize {
    256 << 20
}
fn d_true() -> bool {
    true
}
impl Default for DiskOpts {
    fn default() -> Self {
        DiskOpts {
            block: d_block(),
            rowset: d_rowset(),
            checksum: true,
            first_key: true,
        }
    }
}

pub fn storage_options(path: &Path, o: &DiskOpts) -> SecondaryStorageOptions {
    let mut opts = SecondaryStorageOptions::default_for_cli();
    opts.path = path.to_path_buf();
    opts.target_block_size = o.block.max(24);
    opts.target_rowset_size = o.rowset;
    opts.record_first_key = o.first_key;
    opts.cache_size = 1024;
    if !o.checksum {
        opts.checksum_type = SecondaryStorageOptions::default_for_test().checksum_type;
    }
    opts
}

/// Open a disk database; a panic or error during bootstrap is returned as `Err(message)`.
pub async fn open_disk(path: &Path, o: &DiskOpts) -> Result<Arc<Database>, String> {
    let opts = storage_options(path, o);
    match std::panic::AssertUnwindSafe(Database::new_on_disk(opts))
        .catch_unwind()
        .await
    {
        Ok(db) => Ok(Arc::new(db)),
        Err(e) => Err(enc::panic_msg(e)),
    }
}

/// Outcome of one statement as JSON: {ok, rows, types} | {ok:false, err, panic}.
pub async fn run_stmt(db: &Database, sql: &str) -> Value {
    match std::panic::AssertUnwindSafe(db.run(sql)).catch_unwind().await {
        Ok(Ok(chunks)) => {
            let mut rows = vec![];
            let mut types = vec![];
            for c in &chunks {
                let (r, t) = enc::enc_chunk(c);
                rows.extend(r);
                if types.is_empty() {
                    types = t;
                }
            }
            json!({"ok": true, "rows": rows, "types": types, "nchunks": chunks.len()})
        }
        Ok(Err(e)) => json!({"ok": false, "err": e.to_string(), "panic": false}),
        Err(e) => json!({"ok": false, "err": enc::panic_msg(e), "panic": true}),
    }
}

pub async fn shutdown(db: &Database) -> Result<(), String> {
    match std::panic::AssertUnwindSafe(db.shutdown()).catch_unwind().await {
        Ok(Ok(())) => Ok(()),
        Ok(Err(e)) => Err(e.to_string()),
        Err(e) => Err(enc::panic_msg(e)),
    }
}
