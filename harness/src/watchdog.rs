//! Wall-clock watchdog: a case that does not finish (an optimizer that never saturates, a
//! busy loop) is data. The watchdog appends a `hang` record for it to the output file and ends
//! the process with exit code 3; the runner restarts the shard after the hung case.

use std::io::Write;
use std::sync::Arc;
use std::sync::atomic::{AtomicBool, Ordering};
use std::time::Duration;

pub struct Guard(Arc<AtomicBool>);

impl Drop for Guard {
    fn drop(&mut self) {
        self.0.store(true, Ordering::SeqCst);
    }
}

pub fn limit_secs() -> u64 {
    std::env::var("VH_CASE_TIMEOUT")
        .ok()
        .and_then(|s| s.parse().ok())
        .unwrap_or(60)
}

pub fn arm(out_path: &str, id: &serde_json::Value) -> Guard {
    let done = Arc::new(AtomicBool::new(false));
    let d2 = done.clone();
    let out_path = out_path.to_string();
    let id = id.clone();
    let limit = limit_secs();
    std::thread::spawn(move || {
        let mut waited = 0u64;
        while waited < limit * 10 {
            std::thread::sleep(Duration::from_millis(100));
            if d2.load(Ordering::SeqCst) {
                return;
            }
            waited += 1;
        }
        if let Ok(mut f) = std::fs::OpenOptions::new().append(true).open(&out_path) {
            let _ = writeln!(f, "{}", serde_json::json!({"id": id, "hang": true, "limit_s": limit}));
        }
        std::process::exit(3);
    });
    Guard(done)
}
