//! Encoding of SQL values and results as JSON that TLC's Json module can read.
//!
//! Every value is a pair `[tag, payload]`: `["n",0]` NULL, `["b",0|1]`, `["i",k]` (any integer
//! width; the width is reported separately as the column's array type), `["s",[codes...]]`
//! strings as code-point lists, `["x","text"]` every other type by its display text.

use risinglight::array::{ArrayImpl, Chunk, DataChunk};
use risinglight::types::DataValue;
use serde_json::{Value, json};

pub fn enc_value(v: &DataValue) -> Value {
    match v {
        DataValue::Null => json!(["n", 0]),
        DataValue::Bool(b) => json!(["b", *b as i64]),
        DataValue::Int16(i) => json!(["i", *i as i64]),
        DataValue::Int32(i) => json!(["i", *i as i64]),
        DataValue::Int64(i) => json!(["i", *i]),
        DataValue::String(s) => {
            json!(["s", s.chars().map(|c| c as u32).collect::<Vec<_>>()])
        }
        other => json!(["x", other.to_string()]),
    }
}

pub fn enc_rows(chunks: &[DataChunk]) -> Vec<Value> {
    let mut rows = vec![];
    for c in chunks {
        for r in c.rows() {
            rows.push(Value::Array(r.values().map(|v| enc_value(&v)).collect()));
        }
    }
    rows
}

/// Array variant names of the first non-empty data chunk (or the first chunk).
pub fn enc_types(chunks: &[DataChunk]) -> Vec<String> {
    chunks
        .first()
        .map(|c| c.arrays().iter().map(array_type).collect())
        .unwrap_or_default()
}

pub fn array_type(a: &ArrayImpl) -> String {
    a.type_string().to_string()
}

pub fn enc_chunk(chunk: &Chunk) -> (Vec<Value>, Vec<String>) {
    (enc_rows(chunk.data_chunks()), enc_types(chunk.data_chunks()))
}

pub fn panic_msg(e: Box<dyn std::any::Any + Send>) -> String {
    if let Some(s) = e.downcast_ref::<&str>() {
        s.to_string()
    } else if let Some(s) = e.downcast_ref::<String>() {
        s.clone()
    } else {
        "panic".into()
    }
}
