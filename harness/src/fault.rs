//! `vh fault <in.ndjson> <out.ndjson>`: fault enumeration for C15. For a statement the harness
//! first learns, in a dry run, which operator tasks exist and how many chunks each forwards
//! (the fault hook in `Builder::spawn` is asked before every chunk); then it replays the
//! statement once per (operator, chunk index, fault kind) on a fresh database with exactly that
//! fault armed and records the statement's outcome and the tables afterwards.
//!
//! Case: {"id", "engine", "opts", "setup": [sql..], "sql": "...", "tables": ["t", ..],
//!        "max_points": n}

use std::io::{BufRead, Write};
use std::sync::{Arc, Mutex};

use risinglight::Database;
use risinglight::verif::Fault;
use serde::Deserialize;
use serde_json::{Value, json};

use crate::db::{self, DiskOpts};
use crate::hk::{Rec, Scratch};

#[derive(Deserialize)]
struct Case {
    id: Value,
    engine: String,
    #[serde(default)]
    opts: DiskOpts,
    setup: Vec<String>,
    sql: String,
    tables: Vec<String>,
    #[serde(default = "d_max")]
    max_points: usize,
}
fn d_max() -> usize {
    60
}

async fn fresh(case: &Case, scratch: &Scratch, n: usize) -> Result<Arc<Database>, String> {
    let d = if case.engine == "disk" {
        db::open_disk(&scratch.path().join(format!("db{n}")), &case.opts).await?
    } else {
        Arc::new(Database::new_in_memory())
    };
    for s in &case.setup {
        let r = db::run_stmt(&d, s).await;
        if !r["ok"].as_bool().unwrap_or(false) {
            return Err(format!("setup `{s}` failed: {r}"));
        }
    }
    Ok(d)
}

async fn tables(d: &Database, names: &[String]) -> Value {
    let mut m = serde_json::Map::new();
    for t in names {
        m.insert(t.clone(), db::run_stmt(d, &format!("select * from {t}")).await);
    }
    Value::Object(m)
}

async fn run_case(case: &Case, rec: &Rec) -> Value {
    let scratch = Scratch::new("fault");
    // ---- dry run: learn the fault points
    let points: Arc<Mutex<Vec<(String, usize)>>> = Arc::new(Mutex::new(vec![]));
    let d = match fresh(case, &scratch, 0).await {
        Ok(d) => d,
        Err(e) => return json!({"id": case.id, "fatal": e}),
    };
    let before = tables(&d, &case.tables).await;
    {
        let p = points.clone();
        rec.set_fault(Some(Box::new(move |_actor, op, chunk| {
            p.lock().unwrap().push((op.to_string(), chunk));
            None
        })));
    }
    let dry = db::run_stmt(&d, &case.sql).await;
    rec.set_fault(None);
    let after = tables(&d, &case.tables).await;
    if case.engine == "disk" {
        let _ = db::shutdown(&d).await;
    }
    drop(d);
    let mut pts = points.lock().unwrap().clone();
    pts.dedup();
    // keep the first, the last and a spread of the middle points of every operator
    let mut chosen: Vec<(String, usize)> = vec![];
    let mut ops: Vec<String> = pts.iter().map(|p| p.0.clone()).collect();
    ops.sort();
    ops.dedup();
    for op in &ops {
        let ks: Vec<usize> = pts.iter().filter(|p| &p.0 == op).map(|p| p.1).collect();
        let n = ks.len();
        for (i, k) in ks.iter().enumerate() {
            // first two, middle, last, and the chunks around multiples of the channel capacity (16)
            if i < 2 || i + 1 == n || (n > 4 && i == n / 2) || (i >= 15 && (i % 16 <= 1 || i % 16 == 15)) {
                chosen.push((op.clone(), *k));
            }
        }
    }
    chosen.truncate(case.max_points);
    // ---- one run per fault
    let mut runs = vec![];
    let mut n = 1;
    for (op, k) in &chosen {
        for kind in [Fault::Error, Fault::Panic] {
            let d = match fresh(case, &scratch, n).await {
                Ok(d) => d,
                Err(e) => return json!({"id": case.id, "fatal": e}),
            };
            n += 1;
            let fired = Arc::new(Mutex::new(false));
            {
                let (f, op2, k2) = (fired.clone(), op.clone(), *k);
                rec.set_fault(Some(Box::new(move |_actor, o, c| {
                    let mut g = f.lock().unwrap();
                    if !*g && o == op2 && c == k2 {
                        *g = true;
                        Some(kind)
                    } else {
                        None
                    }
                })));
            }
            let res = db::run_stmt(&d, &case.sql).await;
            rec.set_fault(None);
            // let background work triggered by the statement finish
            tokio::time::sleep(std::time::Duration::from_millis(2)).await;
            let tabs = tables(&d, &case.tables).await;
            if case.engine == "disk" {
                let _ = db::shutdown(&d).await;
            }
            drop(d);
            runs.push(json!({"op": op, "chunk": k, "kind": if kind == Fault::Error {"error"} else {"panic"},
                             "fired": *fired.lock().unwrap(), "result": res, "tables": tabs}));
        }
    }
    json!({"id": case.id, "dry": dry, "before": before, "after": after,
           "points": pts.iter().map(|(o, k)| json!([o, k])).collect::<Vec<_>>(), "runs": runs})
}

pub fn main(args: &[String]) -> i32 {
    let input = std::fs::File::open(&args[0]).expect("open input");
    let mut out = std::io::BufWriter::new(std::fs::File::create(&args[1]).expect("create output"));
    let rec = Rec::install();
    rec.set_record(false);
    for line in std::io::BufReader::new(input).lines() {
        let line = line.unwrap();
        if line.trim().is_empty() {
            continue;
        }
        let case: Case = serde_json::from_str(&line).expect("case json");
        let rt = tokio::runtime::Builder::new_current_thread()
            .enable_all()
            .start_paused(true)
            .build()
            .unwrap();
        let guard = crate::watchdog::arm(&args[1], &case.id);
        let v = rt.block_on(run_case(&case, &rec));
        drop(guard);
        drop(rt);
        writeln!(out, "{}", v).unwrap();
        out.flush().unwrap();
    }
    0
}
