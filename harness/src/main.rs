//! Verification harness for RisingLight: replays cases produced from the TLA+ specifications
//! against the real code and records what the implementation did.

mod db;
mod enc;
mod fault;
mod hk;
mod mt;
mod column;
mod crash;
mod sched;
mod sqlrun;
mod tracecmd;
mod watchdog;

fn main() {
    // panics of the code under test are data, not noise
    if std::env::var("VH_PANIC_TRACE").is_err() {
        std::panic::set_hook(Box::new(|_| {}));
    }
    let args: Vec<String> = std::env::args().collect();
    if args.len() < 2 {
        eprintln!("usage: vh <driver> ...");
        std::process::exit(2);
    }
    let code = match args[1].as_str() {
        "sql" => sqlrun::main(&args[2..]),
        "crash" => crash::main(&args[2..]),
        "trace" => tracecmd::main(&args[2..]),
        "sched" => sched::main(&args[2..]),
        "fault" => fault::main(&args[2..]),
        "column" => column::main(&args[2..]),
        "mt" => mt::main(&args[2..]),
        other => {
            eprintln!("unknown driver {other}");
            2
        }
    };
    std::process::exit(code);
}
