//! `vh sched <in.ndjson> <out.ndjson>`: replay TLC-generated schedules of Secondary.tla against
//! the real engine. Every actor (session tasks, compactor, vacuum) is parked at gated yield
//! points; one schedule step releases exactly one actor and waits until every task is idle
//! again (current-thread runtime, paused clock), so a TLC interleaving becomes a deterministic
//! execution.
//!
//! Case: {"id", "opts", "names": ["A","B"], "init": {"A": [[1,2],[3]], ...},
//!        "prog": {"s1": [{"k":"del","t":"A","rows":[1]}, ...]},
//!        "schedule": [{"a":"Bind","s":"s1"}, {"a":"CompWake","order":["A","B"]}, ...]}

use std::collections::{BTreeMap, HashMap};
use std::io::{BufRead, Write};
use std::sync::{Arc, Mutex};
use std::time::Duration;

use futures::FutureExt;
use risinglight::Database;
use risinglight::catalog::TableRefId;
use risinglight::storage::{
    ScanOptions, Storage, StorageColumnRef, StorageImpl, Table, Transaction, TxnIterator,
};
use serde::Deserialize;
use serde_json::{Value, json};

use crate::db::{self, DiskOpts};
use crate::enc;
use crate::hk::{Controller, Parked, Rec, Scratch};

#[derive(Deserialize, Clone)]
struct Stmt {
    k: String,
    t: String,
    #[serde(default)]
    rows: Vec<i64>,
}

#[derive(Deserialize)]
struct Case {
    id: Value,
    #[serde(default)]
    opts: DiskOpts,
    names: Vec<String>,
    init: BTreeMap<String, Vec<Vec<i64>>>,
    prog: BTreeMap<String, Vec<Stmt>>,
    schedule: Vec<Value>,
    #[serde(default)]
    pk: bool,
    /// non-zero: probe the manifest-lock discipline with extra, seeded releases
    #[serde(default)]
    probe_seed: u64,
    /// non-zero: ignore `schedule` and release a seeded random parked actor at every step (at most
    /// `random_steps` steps, then everything runs to completion); the compactor's timer is one of the
    /// choices.  Only the outcomes are judged (Serial.tla), not the path.
    #[serde(default)]
    random_seed: u64,
    #[serde(default)]
    random_steps: usize,
}

const GATES: &[&str] = &[
    "sess.next",
    "stmt.bound",
    "txn.before_pin",
    "txn.before_lock",
    "txn.locked",
    "scan.open",
    "txn.before_commit",
    "commit.applied",
    "txn.committed",
    "ddl.create.logged",
    "ddl.drop.applied",
    "ddl.drop.pinned",
    "compactor.wake",
    "compactor.before_try_lock",
    "compactor.before_commit",
    "compactor.committed",
    "compactor.pass_done",
    "vacuum.wake",
    "vacuum.unlink",
    "rd.batch",
];

/// Which (actor, role) a spec action belongs to and at which gate the actor waits before it.
fn action_site(a: &str) -> Option<(&'static str, &'static str)> {
    Some(match a {
        "Bind" => ("main", "sess.next"),
        "Start" => ("main", "stmt.bound"),
        "ScanPin" => ("scan", "txn.before_pin"),
        "ScanRead" | "ReadOpen" => ("scan", "scan.open"),
        "ReadBatch" | "ReadClose" => ("scan", "rd.batch"),
        "InsPin" | "DelPin" => ("task", "txn.before_pin"),
        "InsCommitA" | "DelCommitA" => ("task", "txn.before_commit"),
        "InsCommit" | "DelCommit" => ("task", "commit.applied"),
        "InsFinish" | "DelFinish" => ("task", "txn.committed"),
        "DelLock" => ("task", "txn.before_lock"),
        "DelPrep" => ("task", "txn.locked"),
        "CreateApply" => ("task", "ddl.create.logged"),
        "DropPin" => ("task", "ddl.drop.applied"),
        "DropCommit" => ("task", "ddl.drop.pinned"),
        "CompWake" => ("compactor", "compactor.wake"),
        "CompVisit" => ("compactor", "compactor.before_try_lock"),
        "CompCommitA" => ("compactor", "compactor.before_commit"),
        "CompCommit" => ("compactor", "commit.applied"),
        "CompRelease" => ("compactor", "compactor.committed"),
        "CompSleep" => ("compactor", "compactor.pass_done"),
        "VacFind" => ("vacuum", "vacuum.wake"),
        "VacUnlink" => ("vacuum", "vacuum.unlink"),
        _ => return None,
    })
}

fn role_of(actor: &str) -> &'static str {
    match actor.split_once('/') {
        None => "main",
        Some((_, sub)) => {
            let name = sub.trim_start_matches(|c: char| c.is_ascii_digit() || c == '.');
            if name.starts_with("scan") {
                "scan"
            } else {
                "task"
            }
        }
    }
}

fn tname(role: &str, bind: &HashMap<String, String>) -> String {
    bind.get(role).cloned().unwrap_or_else(|| format!("t{}", role.to_lowercase()))
}

fn stmt_sql(st: &Stmt, bind: &HashMap<String, String>, pk: bool) -> String {
    let t = tname(&st.t, bind);
    match st.k.as_str() {
        "ins" => format!(
            "insert into {t} values {}",
            st.rows
                .iter()
                .map(|r| format!("({r}, {})", r * 10))
                .collect::<Vec<_>>()
                .join(", ")
        ),
        "del" => format!(
            "delete from {t} where {}",
            st.rows
                .iter()
                .map(|r| format!("a = {r}"))
                .collect::<Vec<_>>()
                .join(" or ")
        ),
        "sel" => format!("select a, b from {t}"),
        "ct" => format!(
            "create table {t}(a int {}, b int)",
            if pk { "primary key" } else { "not null" }
        ),
        "dt" => format!("drop table {t}"),
        other => panic!("unknown statement kind {other}"),
    }
}

/// A park point of the harness's own session code.
async fn harness_gate(rec: &Rec, actor: &str, label: &'static str) {
    use risinglight::verif::Hooks;
    if let Some(rx) = Hooks::gate(rec, actor, label, &[]) {
        let _ = rx.await;
    }
}

/// The storage-API reader of C08: pin, open, one batch per gate, close.
async fn reader(db: Arc<Database>, rec: Arc<Rec>, actor: String, table: String) -> Value {
    let StorageImpl::SecondaryStorage(storage) = db.verif_storage() else {
        return json!({"ok": false, "err": "not a disk database"});
    };
    let Some(tid) = storage.get_catalog().get_table_id_by_name("postgres", &table) else {
        return json!({"ok": false, "err": "bind", "why": "bind"});
    };
    harness_gate(&rec, &actor, "stmt.bound").await;
    let sub = format!("{actor}/0.scan-reader");
    let rec2 = rec.clone();
    let h = tokio::spawn(async move {
        risinglight::verif::adopt(sub.clone());
        let table = match storage.get_table(TableRefId::new(tid.schema_id, tid.table_id)) {
            Ok(t) => t,
            Err(e) => return json!({"ok": false, "err": e.to_string()}),
        };
        let txn = match table.read().await {
            Ok(t) => t,
            Err(e) => return json!({"ok": false, "err": e.to_string()}),
        };
        let cols = [StorageColumnRef::Idx(0), StorageColumnRef::Idx(1)];
        let mut it = match txn.scan(&cols, ScanOptions::default()).await {
            Ok(i) => i,
            Err(e) => return json!({"ok": false, "err": e.to_string()}),
        };
        let mut rows = vec![];
        let mut batches = 0;
        loop {
            harness_gate(&rec2, &sub, "rd.batch").await;
            match it.next_batch(None).await {
                Ok(Some(chunk)) => {
                    batches += 1;
                    rows.extend(enc::enc_rows(&[chunk]));
                }
                Ok(None) => break,
                Err(e) => return json!({"ok": false, "err": e.to_string(), "io": true}),
            }
        }
        drop(it);
        drop(txn);
        json!({"ok": true, "rows": rows, "batches": batches})
    });
    match h.await {
        Ok(v) => v,
        Err(e) => json!({"ok": false, "err": format!("reader task: {e}"), "panic": e.is_panic()}),
    }
}

async fn session(
    db: Arc<Database>,
    rec: Arc<Rec>,
    name: String,
    prog: Vec<Stmt>,
    bind: HashMap<String, String>,
    pk: bool,
    out: Arc<Mutex<BTreeMap<String, Vec<Value>>>>,
) {
    risinglight::verif::adopt(name.clone());
    for st in prog {
        harness_gate(&rec, &name, "sess.next").await;
        let r = if st.k == "rd" {
            std::panic::AssertUnwindSafe(reader(db.clone(), rec.clone(), name.clone(), tname(&st.t, &bind)))
                .catch_unwind()
                .await
                .unwrap_or_else(|e| json!({"ok": false, "err": enc::panic_msg(e), "panic": true}))
        } else {
            db::run_stmt(&db, &stmt_sql(&st, &bind, pk)).await
        };
        out.lock().unwrap().entry(name.clone()).or_default().push(r);
    }
    harness_gate(&rec, &name, "sess.next").await;
}

fn auto_release(p: &Parked, setup: bool) -> bool {
    if setup {
        // during setup only the compactor is held
        return !p.actor.starts_with("compactor");
    }
    // DDL commits are one step of the specification
    if p.label == "commit.applied" && (p.actor.contains("CreateTable") || p.actor.contains(".drop")) {
        return true;
    }
    // the statistics probe of Database::run (read txn on the session's main task)
    p.label == "txn.before_pin" && role_of(&p.actor) == "main"
}

async fn settle(ctl: &mut Controller, setup: bool) {
    loop {
        ctl.settle().await;
        let mut any = false;
        let mut i = 0;
        while i < ctl.parked.len() {
            if auto_release(&ctl.parked[i], setup) {
                let p = ctl.parked.remove(i);
                let _ = p.tx.send(());
                any = true;
            } else {
                i += 1;
            }
        }
        if !any {
            break;
        }
    }
}

async fn probe(db: &Database, names: &[String], bind: &HashMap<String, String>) -> Value {
    let mut m = serde_json::Map::new();
    for n in names {
        let r = db::run_stmt(db, &format!("select a, b from {}", tname(n, bind))).await;
        m.insert(n.clone(), r);
    }
    Value::Object(m)
}

async fn run_case(case: &Case, rec: Arc<Rec>) -> Value {
    let scratch = Scratch::new("sched");
    let dbdir = scratch.path().join("db");
    let dbh = match db::open_disk(&dbdir, &case.opts).await {
        Ok(d) => d,
        Err(e) => return json!({"id": case.id, "fatal": e}),
    };
    rec.take_events();
    let mut ctl = rec.start_gating(GATES);
    let mut log: Vec<Value> = vec![];
    let mut drift: Vec<Value> = vec![];

    // ---- setup: create the initial tables, learn the compactor's table order, bind roles
    let init_names: Vec<String> = case
        .names
        .iter()
        .filter(|n| case.init.get(*n).map(|v| !v.is_empty()).unwrap_or(false))
        .cloned()
        .collect();
    let mut phys: Vec<String> = vec![];
    {
        let d = dbh.clone();
        let n = init_names.len();
        let pk = case.pk;
        let h = tokio::spawn(async move {
            risinglight::verif::adopt("setup");
            let mut v = vec![];
            for i in 0..n {
                let t = format!("t{i}");
                let r = db::run_stmt(
                    &d,
                    &format!(
                        "create table {t}(a int {}, b int)",
                        if pk { "primary key" } else { "not null" }
                    ),
                )
                .await;
                v.push((t, r));
            }
            v
        });
        while !h.is_finished() {
            settle(&mut ctl, true).await;
        }
        for (t, r) in h.await.unwrap() {
            if !r["ok"].as_bool().unwrap_or(false) {
                return json!({"id": case.id, "fatal": format!("setup create failed: {r}")});
            }
            phys.push(t);
        }
    }
    // let the compactor come to its wake gate, then walk it through one (empty) pass
    let mut order: Vec<i64> = vec![];
    for _ in 0..3 {
        if ctl.is_parked("compactor") {
            break;
        }
        tokio::time::sleep(Duration::from_millis(1001)).await;
        settle(&mut ctl, true).await;
    }
    if ctl.parked_label("compactor") == Some("compactor.wake") {
        ctl.release("compactor");
        loop {
            settle(&mut ctl, true).await;
            match ctl.parked_label("compactor") {
                Some("compactor.before_try_lock") => {
                    let t = ctl
                        .parked
                        .iter()
                        .find(|p| p.actor == "compactor")
                        .and_then(|p| p.args.iter().find(|(k, _)| *k == "table").map(|(_, v)| *v))
                        .unwrap_or(-1);
                    order.push(t);
                    ctl.release("compactor");
                }
                Some("compactor.pass_done") => {
                    ctl.release("compactor");
                    settle(&mut ctl, true).await;
                    tokio::time::sleep(Duration::from_millis(1001)).await;
                    settle(&mut ctl, true).await;
                    break;
                }
                Some(_) => {
                    ctl.release("compactor");
                }
                None => break,
            }
        }
    }
    // the spec's first compactor pass visits tables in the order given by the first CompWake
    let spec_order: Vec<String> = case
        .schedule
        .iter()
        .find(|s| s["a"] == "CompWake")
        .and_then(|s| s["order"].as_array().cloned())
        .map(|a| a.iter().filter_map(|x| x.as_str().map(String::from)).collect())
        .unwrap_or_default();
    let mut bind: HashMap<String, String> = HashMap::new();
    {
        // physical table with id i is phys[i]; `order` lists ids in the compactor's order
        let mut free: Vec<String> = order
            .iter()
            .filter_map(|id| phys.get(*id as usize).cloned())
            .collect();
        for p in &phys {
            if !free.contains(p) {
                free.push(p.clone());
            }
        }
        let mut roles: Vec<String> = spec_order.iter().filter(|r| init_names.contains(r)).cloned().collect();
        for r in &init_names {
            if !roles.contains(r) {
                roles.push(r.clone());
            }
        }
        for (r, p) in roles.iter().zip(free.iter()) {
            bind.insert(r.clone(), p.clone());
        }
    }
    // initial row-sets, one INSERT each, in the spec's row-set id order
    {
        let d = dbh.clone();
        let mut stmts = vec![];
        for n in &init_names {
            for rs in &case.init[n] {
                stmts.push(stmt_sql(
                    &Stmt {
                        k: "ins".into(),
                        t: n.clone(),
                        rows: rs.clone(),
                    },
                    &bind,
                    case.pk,
                ));
            }
        }
        let h = tokio::spawn(async move {
            risinglight::verif::adopt("setup");
            let mut ok = true;
            for s in stmts {
                ok &= db::run_stmt(&d, &s).await["ok"].as_bool().unwrap_or(false);
            }
            ok
        });
        while !h.is_finished() {
            settle(&mut ctl, true).await;
        }
        if !h.await.unwrap() {
            return json!({"id": case.id, "fatal": "setup insert failed"});
        }
    }
    rec.take_events();
    let trace_init = crate::sqlrun::storage_state(&dbh);

    // ---- sessions
    let results: Arc<Mutex<BTreeMap<String, Vec<Value>>>> = Arc::new(Mutex::new(BTreeMap::new()));
    let mut handles = vec![];
    for (s, prog) in &case.prog {
        handles.push(tokio::spawn(session(
            dbh.clone(),
            rec.clone(),
            s.clone(),
            prog.clone(),
            bind.clone(),
            case.pk,
            results.clone(),
        )));
    }
    settle(&mut ctl, false).await;

    // ---- the schedule
    let mut probes = 0usize;
    let mut lcg: u64 = case.probe_seed.wrapping_mul(6364136223846793005).wrapping_add(1442695040888963407);
    if case.random_seed != 0 {
        let mut r: u64 = case.random_seed.wrapping_mul(6364136223846793005).wrapping_add(1442695040888963407);
        for _ in 0..case.random_steps {
            settle(&mut ctl, false).await;
            r = r.wrapping_mul(6364136223846793005).wrapping_add(1442695040888963407);
            let n = ctl.parked.len();
            if n == 0 && handles.iter().all(|h| h.is_finished()) {
                break;
            }
            // one extra choice: let (virtual) time pass, which wakes the compactor when it sleeps
            let k = ((r >> 33) as usize) % (n + 1);
            if k == n {
                if !ctl.is_parked("compactor") {
                    tokio::time::sleep(Duration::from_millis(1001)).await;
                    log.push(json!(["tick", "timer", Value::Null]));
                }
                continue;
            }
            let p = ctl.parked.remove(k);
            log.push(json!(["random", p.actor, p.label]));
            let _ = p.tx.send(());
            // now and then a second actor is released in the same instant: both run until their next gate,
            // interleaved at every await in between (file-system calls, locks)
            if (r >> 13) % 4 == 0 && !ctl.parked.is_empty() {
                let k2 = ((r >> 40) as usize) % ctl.parked.len();
                let p2 = ctl.parked.remove(k2);
                log.push(json!(["random+", p2.actor, p2.label]));
                let _ = p2.tx.send(());
            }
        }
    }
    for (i, step) in case.schedule.iter().enumerate() {
        if case.random_seed != 0 {
            break;
        }
        let a = step["a"].as_str().unwrap_or("");
        // Negative probe: while somebody is between "snapshot applied" and "published" (it holds
        // the manifest lock), let another actor that wants to commit run.  The specification says
        // it must block; if the code lets it through, the outcome validation will tell.
        if case.probe_seed != 0 {
            lcg = lcg.wrapping_mul(6364136223846793005).wrapping_add(1442695040888963407);
            let mid = ctl.parked.iter().find(|p| p.label == "commit.applied").map(|p| Controller::root(&p.actor).to_string());
            if let Some(holder) = mid {
                if (lcg >> 33) % 3 == 0 {
                    let got = ctl.release_where(|p| {
                        Controller::root(&p.actor) != holder
                            && matches!(p.label, "txn.before_commit" | "compactor.before_commit" | "ddl.drop.pinned")
                    });
                    if let Some((actor, label)) = got {
                        probes += 1;
                        log.push(json!(["probe", actor, label]));
                        settle(&mut ctl, false).await;
                    }
                }
            }
        }
        // Negative probe of the table lock: while the compactor is inside a table visit (it holds that
        // table's lock from `compactor.pinned` to the end of the visit), let a DELETE that waits in front
        // of its table lock run.  The specification says it must wait (same table) or may proceed (other
        // table); either way the outcomes must stay explainable by a serial order.
        if case.probe_seed != 0 {
            lcg = lcg.wrapping_mul(6364136223846793005).wrapping_add(1442695040888963407);
            let visiting = ctl.parked.iter().any(|p| {
                Controller::root(&p.actor) == "compactor"
                    && matches!(
                        p.label,
                        "compactor.pinned" | "compactor.selected" | "compactor.read" | "compactor.before_commit"
                    )
            });
            if visiting && (lcg >> 35) % 2 == 0 {
                if let Some((actor, label)) = ctl.release_where(|p| p.label == "txn.before_lock") {
                    probes += 1;
                    log.push(json!(["probe", actor, label]));
                    settle(&mut ctl, false).await;
                }
            }
        }
        let Some((role, want_label)) = action_site(a) else {
            drift.push(json!({"step": i, "why": "unknown action", "a": a}));
            continue;
        };
        let root: String = match role {
            "compactor" | "vacuum" => role.to_string(),
            _ => step["s"].as_str().unwrap_or("").to_string(),
        };
        let srole = if role == "compactor" || role == "vacuum" { "main" } else { role };
        if a == "CompWake" && !ctl.is_parked("compactor") {
            // the compactor sleeps one (virtual) second between passes
            tokio::time::sleep(Duration::from_millis(1001)).await;
            settle(&mut ctl, false).await;
        }
        let got = ctl.release_where(|p| Controller::root(&p.actor) == root && role_of(&p.actor) == srole);
        match got {
            Some((actor, label)) => {
                if label != want_label {
                    drift.push(json!({"step": i, "a": a, "actor": actor, "parked_at": label, "spec_expects": want_label}));
                }
                log.push(json!([a, actor, label]));
            }
            None => {
                drift.push(json!({"step": i, "a": a, "actor": root, "why": "not parked"}));
                log.push(json!([a, root, Value::Null]));
            }
        }
        settle(&mut ctl, false).await;
    }

    // ---- run everything to completion
    for _ in 0..200 {
        settle(&mut ctl, false).await;
        if ctl.parked.is_empty() && handles.iter().all(|h| h.is_finished()) {
            break;
        }
        // never start another compactor pass while sessions are unfinished and parked? no:
        // release everything; an extra compaction pass is allowed by the property
        let n = ctl.parked.len();
        for p in ctl.parked.drain(..) {
            let _ = p.tx.send(());
        }
        if n == 0 {
            // blocked on a real lock or channel with nobody to release: deadlock
            if !handles.iter().all(|h| h.is_finished()) {
                tokio::time::sleep(Duration::from_millis(1001)).await;
            }
        }
    }
    let deadlock = !handles.iter().all(|h| h.is_finished());
    for h in &handles {
        h.abort();
    }
    rec.ungate();
    for p in ctl.parked.drain(..) {
        let _ = p.tx.send(());
    }
    tokio::time::sleep(Duration::from_millis(2)).await;
    let events = rec.take_events();

    // ---- observations: final tables, then reopen
    let fin = probe(&dbh, &case.names, &bind).await;
    let state = crate::sqlrun::storage_state(&dbh);
    let files = crate::sqlrun::list_files(&dbdir);
    let _ = db::shutdown(&dbh).await;
    drop(dbh);
    tokio::time::sleep(Duration::from_millis(2)).await;
    let reopened = match db::open_disk(&dbdir, &case.opts).await {
        Ok(d2) => {
            let v = probe(&d2, &case.names, &bind).await;
            let _ = db::shutdown(&d2).await;
            json!({"ok": true, "tables": v})
        }
        Err(e) => json!({"ok": false, "err": e}),
    };
    let res = results.lock().unwrap().clone();
    json!({"id": case.id, "results": res, "final": fin, "reopened": reopened, "deadlock": deadlock,
           "drift": drift, "log": log, "probes": probes, "bind": bind, "trace_init": trace_init, "order": order, "state": state, "files": files,
           "trace": events.iter().map(|e| e.to_json()).collect::<Vec<_>>()})
}

pub fn main(args: &[String]) -> i32 {
    let input = std::fs::File::open(&args[0]).expect("open input");
    let mut out = std::io::BufWriter::new(std::fs::File::create(&args[1]).expect("create output"));
    let keep_trace = args.get(2).map(|s| s == "--trace").unwrap_or(false);
    for line in std::io::BufReader::new(input).lines() {
        let line = line.unwrap();
        if line.trim().is_empty() {
            continue;
        }
        let case: Case = serde_json::from_str(&line).expect("case json");
        let rec = Rec::install();
        rec.set_record(true);
        let rt = tokio::runtime::Builder::new_current_thread()
            .enable_all()
            .start_paused(true)
            .build()
            .unwrap();
        let mut v = rt.block_on(run_case(&case, rec.clone()));
        drop(rt);
        if !keep_trace {
            if let Some(o) = v.as_object_mut() {
                o.remove("trace");
            }
        }
        writeln!(out, "{}", v).unwrap();
    }
    out.flush().unwrap();
    0
}
