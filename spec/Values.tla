------------------------------- MODULE Values -------------------------------
(***************************************************************************)
(* C19: one total preorder per type, used uniformly.                       *)
(* A table holds rows 1..n; cls[i] is the equivalence class of row i's     *)
(* value (classes are numbered in their order).  Every *use* of equality   *)
(* and order in the system must agree with that single preorder:           *)
(*   comparison operators, ORDER BY, GROUP BY / DISTINCT, join keys,       *)
(*   MIN / MAX, the storage sort order, and print-then-parse.              *)
(* A record carries cls and what each use returned.                        *)
(***************************************************************************)
EXTENDS Naturals, Sequences, FiniteSets, TLC, Json, IOUtils

Range(q) == {q[i] : i \in DOMAIN q}
Count(q, x) == Cardinality({i \in DOMAIN q : q[i] = x})
BagEq(a, b) == Len(a) = Len(b) /\ \A x \in Range(a) \cup Range(b) : Count(a, x) = Count(b, x)
NonDecreasing(q) == \A i \in 1..(Len(q) - 1) : q[i] <= q[i + 1]

\* --- uses ------------------------------------------------------------------
\* cmp: sequence of [i, j, lt, eq, le] as returned by  a.x < b.x, a.x = b.x, a.x <= b.x
CmpOk(cls, cmp) ==
    /\ Len(cmp) = Len(cls) * Len(cls)
    /\ \A t \in DOMAIN cmp :
         LET c == cmp[t] IN
         /\ c.lt = (cls[c.i] < cls[c.j])
         /\ c.eq = (cls[c.i] = cls[c.j])
         /\ c.le = (cls[c.i] <= cls[c.j])

\* order: the row numbers in the order ORDER BY x returned them
OrderOk(cls, order) ==
    /\ BagEq(order, [i \in DOMAIN cls |-> i])
    /\ NonDecreasing([t \in DOMAIN order |-> cls[order[t]]])

\* groups: the sizes of the groups of GROUP BY x;  distinct: number of rows of SELECT DISTINCT x
GroupOk(cls, groups, distinct) ==
    LET classes == Range(cls) IN
    /\ distinct = Cardinality(classes)
    /\ BagEq(groups, [t \in 1..Cardinality(classes) |->
                        Count(cls, CHOOSE c \in classes : Cardinality({d \in classes : d < c}) = t - 1)])

\* join: pairs <<i, j>> returned by  a JOIN b ON a.x = b.x
JoinOk(cls, pairs) ==
    /\ \A t \in DOMAIN pairs : cls[pairs[t][1]] = cls[pairs[t][2]]
    /\ Len(pairs) = Cardinality({p \in (DOMAIN cls) \X (DOMAIN cls) : cls[p[1]] = cls[p[2]]})
    /\ Cardinality(Range(pairs)) = Len(pairs)

\* minrow / maxrow: a row whose value equals (prints like) MIN(x) / MAX(x)
MinMaxOk(cls, minrow, maxrow) ==
    /\ \A i \in DOMAIN cls : cls[minrow] <= cls[i]
    /\ \A i \in DOMAIN cls : cls[i] <= cls[maxrow]

\* back[i]: the row(s) equal to parse(display(value of row i)) -- must be exactly row i's class
PrintOk(cls, back) == \A i \in DOMAIN back : back[i] = Cardinality({j \in DOMAIN cls : cls[j] = cls[i]})

Recs == ndJsonDeserialize(IOEnv.OBS)
VARIABLE i
Init == i = 1
Next == /\ i <= Len(Recs)
        /\ LET r == Recs[i] IN
           PrintT(<<"VAL", r.id,
                    [cmp |-> IF r.has.cmp THEN CmpOk(r.cls, r.cmp) ELSE TRUE,
                     cmp_off |-> IF r.has.cmp_off THEN CmpOk(r.cls, r.cmp_off) ELSE TRUE,
                     order |-> IF r.has.order THEN OrderOk(r.cls, r.order) ELSE TRUE,
                     group |-> IF r.has.group THEN GroupOk(r.cls, r.groups, r.distinct) ELSE TRUE,
                     join |-> IF r.has.join THEN JoinOk(r.cls, r.join) ELSE TRUE,
                     join_off |-> IF r.has.join_off THEN JoinOk(r.cls, r.join_off) ELSE TRUE,
                     minmax |-> IF r.has.minmax THEN MinMaxOk(r.cls, r.minrow, r.maxrow) ELSE TRUE,
                     pk |-> IF r.has.pk THEN OrderOk(r.cls, r.pk) ELSE TRUE,
                     print |-> IF r.has.print THEN PrintOk(r.cls, r.back) ELSE TRUE]>>)
        /\ i' = i + 1
Spec == Init /\ [][Next]_i
==============================================================================
