------------------------------- MODULE Blocks -------------------------------
(***************************************************************************)
(* C18: stored column data with checksums, the block cache and corruption. *)
(* One table of NB blocks and an unaffected second table.  A read returns  *)
(* the original content, an error, or -- never allowed -- altered content.  *)
(*                                                                         *)
(* Dev "CacheBeforeVerify": a block read from disk enters the cache before *)
(* its checksum is verified (the defect repaired in column.rs).            *)
(***************************************************************************)
EXTENDS Naturals, Sequences, FiniteSets, TLC

CONSTANTS NB,        \* blocks of the affected column file
          MaxSteps,
          Dev

Blocks == 1..NB

VARIABLES disk,      \* block -> "ok" | "bad"      (bytes on disk intact / altered)
          idx,       \* "ok" | "bad"               (the column's index file)
          cache,     \* block -> "none" | "good" | "bad"
          opened,    \* the row-set is open (its index was loaded and verified)
          up,        \* the database is open
          last,      \* outcome of the last read: "none" | "orig" | "err" | "altered"
          lastOther, \* outcome of the last read of the unaffected table
          steps

vars == <<disk, idx, cache, opened, up, last, lastOther, steps>>

Init == /\ disk = [b \in Blocks |-> "ok"] /\ idx = "ok"
        /\ cache = [b \in Blocks |-> "none"] /\ opened = TRUE /\ up = TRUE
        /\ last = "none" /\ lastOther = "none" /\ steps = 0

Tick == steps < MaxSteps /\ steps' = steps + 1

\* any alteration of the data file inside block b (payload, block type, checksum type, checksum,
\* truncation through b)
CorruptBlock(b) ==
    /\ Tick /\ disk' = [disk EXCEPT ![b] = "bad"]
    /\ UNCHANGED <<idx, cache, opened, up, last, lastOther>>

CorruptIndex ==
    /\ Tick /\ idx' = "bad"
    /\ UNCHANGED <<disk, cache, opened, up, last, lastOther>>

\* result of fetching one block, and the cache afterwards
Fetch(b) ==
    IF cache[b] = "good" THEN [r |-> "orig", c |-> "good"]
    ELSE IF cache[b] = "bad" THEN [r |-> "altered", c |-> "bad"]
    ELSE IF disk[b] = "ok" THEN [r |-> "orig", c |-> "good"]
    ELSE [r |-> "err", c |-> IF "CacheBeforeVerify" \in Dev THEN "bad" ELSE "none"]

\* a query over the affected table reads every block in order and stops at the first error
RECURSIVE Scan(_, _)
Scan(b, c) ==
    IF b > NB THEN [r |-> "orig", c |-> c]
    ELSE LET f == Fetch(b) IN
         IF f.r = "err" THEN [r |-> "err", c |-> [c EXCEPT ![b] = f.c]]
         ELSE LET rest == Scan(b + 1, [c EXCEPT ![b] = f.c])
              IN [r |-> IF f.r = "altered" /\ rest.r = "orig" THEN "altered" ELSE rest.r, c |-> rest.c]

Read ==
    /\ Tick /\ up
    /\ IF ~opened THEN last' = "err" /\ UNCHANGED cache
       ELSE LET s == Scan(1, cache) IN last' = s.r /\ cache' = s.c
    /\ UNCHANGED <<disk, idx, opened, up, lastOther>>

ReadOther ==
    /\ Tick /\ up
    /\ lastOther' = "orig"
    /\ UNCHANGED <<disk, idx, cache, opened, up, last>>

\* shutdown and boot: the cache is gone, every row-set's index is verified again; a bad index
\* makes the row-set unreadable (the boot fails as a whole: as coded, bootstrap returns the error)
Reopen ==
    /\ Tick
    /\ cache' = [b \in Blocks |-> "none"]
    /\ opened' = (idx = "ok")
    /\ up' = (idx = "ok")
    /\ UNCHANGED <<disk, idx, last, lastOther>>

Next == (\E b \in Blocks : CorruptBlock(b)) \/ CorruptIndex \/ Read \/ ReadOther \/ Reopen
Spec == Init /\ [][Next]_vars

\* C18: altered values are never returned
NeverAltered == last # "altered"
==============================================================================
