------------------------------ MODULE DurableMC ------------------------------
(* TLC-only wrapper of Durable: a history variable (hidden from the state      *)
(* fingerprint by VIEW) turns TLC's breadth-first search into a generator of   *)
(* behaviours.  Every transition that brings the database to rest prints the   *)
(* history that led there, as one JSON line, for replay against the code.      *)
EXTENDS Durable, Json

VARIABLE h

Obs == [a |-> "obs", adb |-> adb, vis |-> Visible, kf |-> kf, dead |-> dead, err |-> err,
        up |-> up]

Rest == (pc = "idle") \/ dead \/ (pc = "down" /\ cur = NoCur)

\* the observation is appended when the activity that was running comes to rest
Settle(e) ==
    h' = IF Rest' /\ ~(pc = "down" /\ pc' = "down" /\ ~dead')
         THEN Append(Append(h, e), Obs') ELSE Append(h, e)
Quiet ==
    h' = IF Rest' /\ ~Rest THEN Append(h, Obs') ELSE h

MCInit == Init /\ h = <<>>

MCNext ==
    \/ \E n \in Names : CreateTable(n) /\ Settle([a |-> "ct", n |-> n])
    \/ \E n, m \in Names : CreateView(n, m) /\ Settle([a |-> "cv", n |-> n, base |-> m])
    \/ \E n \in Names : DropRefused(n) /\ Settle([a |-> "dtx", n |-> n])
    \/ \E n \in Names : DropTable(n)   /\ Settle([a |-> "dt", n |-> n])
    \/ CreateIndex /\ Settle([a |-> "ci"])
    \/ CreateFunction /\ Settle([a |-> "cf"])
    \/ \E n \in Names : Compact(n)     /\ Settle([a |-> "compact", n |-> n])
    \/ \E n \in Names, c \in 1..2 : Insert(n, c) /\ Settle([a |-> "ins", n |-> n, rows |-> (nrow + 1)..(nrow + c)])
    \/ \E n \in Names, S \in DelSets : Delete(n, S) /\ Settle([a |-> "del", n |-> n, rows |-> S,
                                                             cnt |-> Cardinality(adb[n].rows \cap S)])
    \/ Shutdown /\ Settle([a |-> "shutdown"])
    \/ BootReplay /\ Settle([a |-> "boot"])
    \/ Crash /\ Settle([a |-> "crash", at |-> pc])
    \/ (Step \/ BootVacDir \/ BootVacDv \/ BootOpen \/ BootTmpStart \/ BootTmpEnd \/ BootRename \/ Judge) /\ Quiet

Emit == (Rest' /\ ~Rest) => PrintT(<<"HIST", ToJson(h')>>)

MCSpec == MCInit /\ [][MCNext /\ Emit]_<<vars, h>>

MCView == vars
==============================================================================
