-------------------------------- MODULE Csv --------------------------------
(***************************************************************************)
(* C20: COPY ... TO and COPY ... FROM as transducers between tables and    *)
(* byte sequences.                                                         *)
(*                                                                         *)
(* Cells   <<"n",0>> NULL | <<"i",k>> | <<"b",0|1>> | <<"s",<<codes>>>>    *)
(* Writer  every cell is rendered as text (NULL = empty field), a field is *)
(*         quoted iff it contains the delimiter, the quote, CR or LF (the  *)
(*         quote is doubled inside), a record whose only field is empty is *)
(*         written as an empty quoted field; records end with LF.          *)
(* Reader  fields are split and unquoted; an empty field is NULL, other    *)
(*         fields are parsed according to the column type.                 *)
(*                                                                         *)
(* Dev "EmptyIsNull": the reader cannot tell an empty string from NULL     *)
(* (both arrive as an empty field) -- as coded.  With Dev = {} the writer  *)
(* is assumed to mark empty strings in a way the reader recognises, which  *)
(* is what the round-trip property needs.                                  *)
(* Dev "HeaderNotWritten": see RoundTrip.                                   *)
(***************************************************************************)
EXTENDS Naturals, Integers, Sequences, FiniteSets, TLC

CONSTANT Dev

LF == 10
CR == 13

\* decimal digits of a natural number, most significant first
RECURSIVE Digits(_)
Digits(n) == IF n < 10 THEN <<48 + n>> ELSE Digits(n \div 10) \o <<48 + (n % 10)>>

Render(c) ==
    CASE c[1] = "n" -> <<>>
      [] c[1] = "i" -> IF c[2] < 0 THEN <<45>> \o Digits(0 - c[2]) ELSE Digits(c[2])
      [] c[1] = "b" -> IF c[2] = 1 THEN <<116, 114, 117, 101>> ELSE <<102, 97, 108, 115, 101>>
      [] c[1] = "s" -> c[2]

Has(q, x) == \E i \in DOMAIN q : q[i] = x
RECURSIVE Doubled(_, _)
Doubled(q, quote) == IF Len(q) = 0 THEN <<>>
                     ELSE (IF q[1] = quote THEN <<quote, quote>> ELSE <<q[1]>>) \o Doubled(Tail(q), quote)

Field(text, delim, quote, alone) ==
    IF Has(text, delim) \/ Has(text, quote) \/ Has(text, LF) \/ Has(text, CR) \/ (alone /\ Len(text) = 0)
    THEN <<quote>> \o Doubled(text, quote) \o <<quote>>
    ELSE text

RECURSIVE JoinFields(_, _)
JoinFields(fs, delim) == IF Len(fs) = 0 THEN <<>>
                         ELSE IF Len(fs) = 1 THEN fs[1]
                         ELSE fs[1] \o <<delim>> \o JoinFields(Tail(fs), delim)

Record(row, delim, quote) ==
    JoinFields([i \in DOMAIN row |-> Field(Render(row[i]), delim, quote, Len(row) = 1)], delim) \o <<LF>>

RECURSIVE WriteRows(_, _, _)
WriteRows(rows, delim, quote) ==
    IF Len(rows) = 0 THEN <<>> ELSE Record(rows[1], delim, quote) \o WriteRows(Tail(rows), delim, quote)

\* COPY TO: optional header line with the column names
Write(rows, names, header, delim, quote) ==
    (IF header /\ "HeaderNotWritten" \notin Dev THEN JoinFields([i \in DOMAIN names |-> Field(names[i], delim, quote, Len(names) = 1)], delim) \o <<LF>>
     ELSE <<>>) \o WriteRows(rows, delim, quote)

(***************************************************************************)
(* What the reader makes of a cell that went through the writer.           *)
(***************************************************************************)
ReadBack(c) ==
    IF c[1] = "s" /\ Len(c[2]) = 0 /\ "EmptyIsNull" \in Dev THEN <<"n", 0>> ELSE c

\* Dev "HeaderNotWritten": COPY TO (HEADER) writes no header line, COPY FROM (HEADER) skips the first
\* line all the same -- the first data row is lost
RoundTrip(rows, header) ==
    LET back == [i \in DOMAIN rows |-> [j \in DOMAIN rows[i] |-> ReadBack(rows[i][j])]]
    IN IF header /\ "HeaderNotWritten" \in Dev /\ Len(back) > 0 THEN Tail(back) ELSE back

\* C20 on the model: the round trip is the identity
Identity(rows) == RoundTrip(rows, FALSE) = rows /\ RoundTrip(rows, TRUE) = rows
==============================================================================
