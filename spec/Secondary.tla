------------------------------ MODULE Secondary ------------------------------
(***************************************************************************)
(* The "secondary" storage engine of RisingLight under concurrency:        *)
(* version manager (epochs, pinned snapshots, deferred deletions), write / *)
(* delete / read transactions as the SQL executors use them (one tokio     *)
(* task per plan node), DDL, the background compactor and the vacuum.      *)
(*                                                                         *)
(* One action = the code between two consecutive *gated* yield points of   *)
(* /repo/src/verif.rs (labels in the comments).  With every other actor    *)
(* parked on a gate such a segment executes atomically, which is what the  *)
(* replay harness arranges (one thread, paused clock); TLC explores every  *)
(* order of the segments.                                                  *)
(*                                                                         *)
(* Rows are distinct tokens (the key of the row).  `Dev' switches on       *)
(* behaviour of the code that is known to be wrong (known_findings.json).  *)
(***************************************************************************)
EXTENDS Naturals, Sequences, FiniteSets, SequencesExt, TLC, ManifestOps, Serial

CONSTANTS
    Sessions,     \* client sessions
    Prog,         \* [Sessions -> sequence of statements]
                  \*   [k |-> "ins", t |-> name, rows |-> set]   INSERT
                  \*   [k |-> "del", t |-> name, rows |-> set]   DELETE WHERE key IN rows
                  \*   [k |-> "sel", t |-> name]                 SELECT (full scan)
                  \*   [k |-> "rd",  t |-> name]                 storage-API reader, batch by batch
                  \*   [k |-> "ct",  t |-> name]                 CREATE TABLE
                  \*   [k |-> "dt",  t |-> name]                 DROP TABLE
    InitRows,     \* [Names -> sequence of row sets]: row-sets present at the start (<<>>: no table)
    MaxPasses,    \* compactor passes
    Dev           \* deviations of the code

Actors == Sessions \cup {"compactor", "vacuum"}
Free == "free"

VARIABLES
    \* ------------------------------------------------------- version manager
    epoch,        \* current epoch
    snap,         \* epoch -> [rs : set of <<tid, rid>>, dv : set of <<tid, rid, did>>]  (current + pinned)
    pins,         \* epoch -> number of pins (entries > 0 only)
    delq,         \* epoch -> row-sets whose files may go once nobody pins an older epoch
    pool,         \* open row-set objects
    vacNote,      \* pending notifications to the vacuum task (capped)
    \* ------------------------------------------------------------- storage
    cat,          \* name -> [k : "none"|"table", id]
    nextTid, nextRs, nextDv,
    tlock,        \* tid -> holder of the per-table delete/compaction lock
    mlock,        \* holder of the manifest lock (commit_changes holds it from apply to publish)
    dirs,         \* row-set directories on disk
    rsrows,       \* <<tid, rid>> -> rows of the row-set (immutable)
    dvrows,       \* <<tid, rid, did>> -> rows hidden by the delete vector
    man,          \* manifest (sequence of operations, committed transactions only)
    \* -------------------------------------------------------------- actors
    ss,           \* session -> state of its current statement (see SIdle)
    results,      \* session -> sequence of statement outcomes
    comp,         \* compactor state
    vac,          \* vacuum state
    \* ---------------------------------------------------------- bookkeeping
    fail,         \* a task panicked / an I/O failure a reader must never see
    kf            \* deviations that fired

vmv == <<epoch, snap, pins, delq, pool, vacNote>>
stv == <<cat, nextTid, nextRs, nextDv, tlock, mlock, dirs, rsrows, dvrows, man>>
acv == <<ss, results, comp, vac>>
vars == <<vmv, stv, acv, fail, kf>>

Put(f, k, v) == [x \in DOMAIN f \cup {k} |-> IF x = k THEN v ELSE f[x]]
Del(f, K)    == [x \in DOMAIN f \ K |-> f[x]]
Get(f, k, d) == IF k \in DOMAIN f THEN f[k] ELSE d

(***************************************************************************)
(* Version manager primitives.                                             *)
(***************************************************************************)
PinAt(p, e)   == Put(p, e, Get(p, e, 0) + 1)
UnpinAt(p, e) == IF p[e] = 1 THEN Del(p, {e}) ELSE Put(p, e, p[e] - 1)
\* Version::drop notifies the vacuum when the last pin of a *non-current* epoch goes away
Notifies(p, e, cur) == p[e] = 1 /\ e # cur
Cap(n) == IF n > 2 THEN 2 ELSE n

\* only the current snapshot and pinned ones are ever looked at again
Prune(sn, p, cur) == [e \in (DOMAIN p \cup {cur}) \cap DOMAIN sn |-> sn[e]]

ApplyOp(s, op) ==
    CASE op.o = "ARS" -> [s EXCEPT !.rs = @ \cup {<<op.t, op.r>>}]
      [] op.o = "DRS" -> [s EXCEPT !.rs = @ \ {<<op.t, op.r>>}]
      [] op.o = "ADV" -> [s EXCEPT !.dv = @ \cup {<<op.t, op.r, op.d>>}]
      [] op.o = "DDV" -> [s EXCEPT !.dv = @ \ {<<op.t, op.r, op.d>>}]
      [] OTHER -> s
RECURSIVE ApplyOps(_, _, _)
ApplyOps(s, ops, i) == IF i > Len(ops) THEN s ELSE ApplyOps(ApplyOp(s, ops[i]), ops, i + 1)

Removed(ops) == {<<ops[i].t, ops[i].r>> : i \in {j \in 1..Len(ops) : ops[j].o = "DRS"}}

\* Snapshot::delete_rowset unwraps the table's entry: it panics when the table has no row-set
\* left in the current snapshot (a DROP TABLE got there first).
RECURSIVE DrsPanics(_, _, _)
DrsPanics(s, ops, i) ==
    IF i > Len(ops) THEN FALSE
    ELSE IF ops[i].o = "DRS" /\ ~(\E x \in s.rs : x[1] = ops[i].t) THEN TRUE
    ELSE DrsPanics(ApplyOp(s, ops[i]), ops, i + 1)

\* VersionManager::commit_changes: under the manifest lock, apply to the *current* snapshot,
\* append to the manifest, publish the next epoch.  (No gate inside, hence one step.)
Commit(ops) ==
    /\ epoch' = epoch + 1
    /\ snap' = Prune(Put(snap, epoch + 1, ApplyOps(snap[epoch], ops, 1)), pins, epoch + 1)
    /\ delq' = IF Removed(ops) = {} THEN delq ELSE Put(delq, epoch + 1, Removed(ops))
    /\ pool' = pool \cup {<<ops[i].t, ops[i].r>> : i \in {j \in 1..Len(ops) : ops[j].o = "ARS"}}
    /\ man' = man \o ops

VisibleIn(s, t) ==
    UNION { Get(rsrows, x, {})
              \ UNION {Get(dvrows, d, {}) : d \in {d \in s.dv : d[1] = t /\ d[2] = x[2]}}
          : x \in {x \in s.rs : x[1] = t} }

TableRows(n) == IF cat[n].k = "table" THEN VisibleIn(snap[epoch], cat[n].id) ELSE {}

(***************************************************************************)
(* Initial state: the tables of InitRows exist with the given row-sets     *)
(* (what a sequential prefix CREATE, INSERT, INSERT ... leaves behind).    *)
(***************************************************************************)
InitNames == {n \in Names : Len(InitRows[n]) > 0}
InitSeq == SetToSeq(InitNames)
TidOf(n) == CHOOSE i \in 1..Len(InitSeq) : InitSeq[i] = n
\* row-set ids are handed out table by table
Base(n) == LET RECURSIVE B(_) B(i) == IF i = 0 THEN 0 ELSE B(i - 1) + Len(InitRows[InitSeq[i]])
           IN B(TidOf(n) - 1)
InitRs == UNION {{<<TidOf(n) - 1, Base(n) + j - 1>> : j \in 1..Len(InitRows[n])} : n \in InitNames}
InitRowsOf == [x \in InitRs |->
                LET n == CHOOSE n \in InitNames : TidOf(n) - 1 = x[1] IN InitRows[n][x[2] - Base(n) + 1]]

SIdle == [pc |-> "idle"]
Init ==
    /\ epoch = 1 /\ snap = (1 :> [rs |-> InitRs, dv |-> {}]) /\ pins = <<>> /\ delq = <<>>
    /\ pool = InitRs /\ vacNote = 0
    /\ cat = [n \in Names |-> IF n \in InitNames THEN [k |-> "table", id |-> TidOf(n) - 1]
                              ELSE [k |-> "none", id |-> NoId]]
    /\ nextTid = Len(InitSeq) /\ nextRs = Cardinality(InitRs) /\ nextDv = 0
    /\ tlock = [t \in 0..(Cardinality(Names) + 3) |-> Free] /\ mlock = Free
    /\ dirs = InitRs /\ rsrows = InitRowsOf /\ dvrows = <<>>
    /\ man = [i \in 1..Len(InitSeq) |-> [o |-> "CT", n |-> InitSeq[i]]]
             \o [i \in 1..Cardinality(InitRs) |-> LET x == SetToSeq(InitRs)[i] IN [o |-> "ARS", t |-> x[1], r |-> x[2]]]
    /\ ss = [s \in Sessions |-> SIdle]
    /\ results = [s \in Sessions |-> <<>>]
    /\ comp = [pc |-> "sleep", pass |-> 0, todo |-> <<>>]
    /\ vac = [pc |-> "idle", todo |-> <<>>]
    /\ fail = FALSE /\ kf = {}

(***************************************************************************)
(* Sessions.  ss[s] = [pc, st (the statement), tid, scan : [...],          *)
(* task : [...]]; statement number = Len(results[s]) + 1.                  *)
(***************************************************************************)
StmtNo(s) == Len(results[s]) + 1
HasNext(s) == StmtNo(s) <= Len(Prog[s])
Cur(s) == Prog[s][StmtNo(s)]

Finish(s, out) ==
    /\ results' = [results EXCEPT ![s] = Append(@, out)]
    /\ ss' = [ss EXCEPT ![s] = SIdle]

\* (sess.next -> stmt.bound) statistics probe and binder: names are resolved here
Bind(s) ==
    /\ ss[s].pc = "idle" /\ HasNext(s)
    /\ LET st == Cur(s) IN
       IF st.k = "ct"
       THEN IF cat[st.t].k # "none"
            THEN Finish(s, [ok |-> FALSE, why |-> "bind"])
            ELSE ss' = [ss EXCEPT ![s] = [pc |-> "bound", st |-> st, tid |-> NoId]] /\ UNCHANGED results
       ELSE IF cat[st.t].k # "table"
            THEN Finish(s, [ok |-> FALSE, why |-> "bind"])
            ELSE ss' = [ss EXCEPT ![s] = [pc |-> "bound", st |-> st, tid |-> cat[st.t].id]] /\ UNCHANGED results
    /\ UNCHANGED <<vmv, stv, comp, vac, fail, kf>>

TableGone(s) == ~(\E n \in Names : cat[n].k = "table" /\ cat[n].id = ss[s].tid)

NoScan == [pc |-> "none"]
NoTask == [pc |-> "none"]

\* (stmt.bound -> first gate of every operator task)  executors are built and spawned
Start(s) ==
    /\ ss[s].pc = "bound"
    /\ LET st == ss[s].st IN
       CASE st.k \in {"ins", "del", "sel", "rd"} ->
              \* the executor builder looks every table of the plan up in the catalog and
              \* unwraps: a table dropped since Bind makes Database::run panic
              IF TableGone(s)
              THEN /\ Finish(s, [ok |-> FALSE, why |-> IF st.k = "rd" THEN "notfound" ELSE "panic"])
                   /\ UNCHANGED <<vmv, stv>>
              ELSE /\ ss' = [ss EXCEPT ![s] = [@ EXCEPT !.pc = "run"] @@
                               [scan |-> IF st.k = "ins" THEN NoScan ELSE [pc |-> "prepin"],
                                task |-> IF st.k \in {"ins", "del"} THEN [pc |-> "prepin"] ELSE NoTask]]
                   /\ UNCHANGED <<results, vmv, stv>>
         [] st.k = "ct" ->
              \* (ddl.create.logged) the record is durable before the catalog is touched
              /\ mlock = Free
              /\ Commit(<<[o |-> "CT", n |-> st.t]>>)
              /\ ss' = [ss EXCEPT ![s] = [@ EXCEPT !.pc = "run"] @@ [scan |-> NoScan, task |-> [pc |-> "logged"]]]
              /\ UNCHANGED <<results, pins, vacNote, cat, nextTid, nextRs, nextDv, tlock, mlock, dirs, rsrows, dvrows>>
         [] st.k = "dt" ->
              \* (ddl.drop.applied) the catalog is changed first
              IF TableGone(s)
              THEN Finish(s, [ok |-> FALSE, why |-> "notfound"]) /\ UNCHANGED <<vmv, stv>>
              ELSE /\ cat' = [cat EXCEPT ![st.t] = [k |-> "none", id |-> NoId]]
                   /\ ss' = [ss EXCEPT ![s] = [@ EXCEPT !.pc = "run"] @@ [scan |-> NoScan, task |-> [pc |-> "applied"]]]
                   /\ UNCHANGED <<results, vmv, nextTid, nextRs, nextDv, tlock, mlock, dirs, rsrows, dvrows, man>>
    /\ LET boom == ss[s].st.k \in {"ins", "del", "sel"} /\ TableGone(s)
           \* a CREATE TABLE is logged while a DROP of the same name has changed the catalog but not yet logged its
           \* DropTable: the log then holds two CreateTable records of the name in a row and replay fails (F35)
           early == /\ ss[s].st.k = "ct"
                    /\ \E o \in DOMAIN ss : /\ o # s /\ ss[o].pc = "run" /\ ss[o].st.k = "dt"
                                              /\ ss[o].st.t = ss[s].st.t /\ ss[o].task.pc \in {"applied", "pinned"}
       IN
       /\ fail' = (fail \/ boom)
       /\ kf' = (IF boom /\ "BuildAfterDropPanics" \in Dev THEN kf \cup {"BuildAfterDropPanics"} ELSE kf)
                 \cup (IF early /\ "CreateBeforeDropLogged" \in Dev THEN {"CreateBeforeDropLogged"} ELSE {})
    /\ UNCHANGED <<comp, vac>>

Running(s) == ss[s].pc = "run"

\* ------------------------------------------------------------------ read side
\* (txn.before_pin -> scan.open) the scan task pins the current version
ScanPin(s) ==
    /\ Running(s) /\ ss[s].scan.pc = "prepin"
    /\ pins' = PinAt(pins, epoch)
    /\ ss' = [ss EXCEPT ![s].scan = [pc |-> "pinned", e |-> epoch, left |-> {}, got |-> {}]]
    \* the table was resolved before a concurrent DROP TABLE: the scan finds no row-set and
    \* reports an empty table instead of failing
    /\ kf' = IF TableGone(s) /\ "ScanAfterDrop" \in Dev THEN kf \cup {"ScanAfterDrop"} ELSE kf
    /\ UNCHANGED <<epoch, snap, delq, pool, vacNote, stv, results, comp, vac, fail>>

Needed(s) == {x \in snap[ss[s].scan.e].rs : x[1] = ss[s].tid}

Unpin(e) ==
    /\ pins' = UnpinAt(pins, e)
    /\ vacNote' = IF Notifies(pins, e, epoch) THEN Cap(vacNote + 1) ELSE vacNote
    /\ snap' = Prune(snap, UnpinAt(pins, e), epoch)

\* (scan.open -> end of stream) row-set objects are fetched from the pool (panic if missing),
\* all batches are read, the stream ends and the transaction is dropped (unpin).
\* A SELECT is finished by this; a DELETE's delete task consumes the row handlers.
ScanRead(s) ==
    /\ Running(s) /\ ss[s].scan.pc = "pinned" /\ ss[s].st.k \in {"sel", "del"}
    /\ LET sc == ss[s].scan
           need == Needed(s)
           seen == VisibleIn(snap[sc.e], ss[s].tid)
           lost == ~(need \subseteq pool /\ need \subseteq dirs)
       IN  /\ Unpin(sc.e)
           /\ fail' = (fail \/ lost)
           /\ IF ss[s].st.k = "sel"
              THEN Finish(s, IF lost THEN [ok |-> FALSE, why |-> "io"] ELSE [ok |-> TRUE, rows |-> seen])
              ELSE /\ ss' = [ss EXCEPT ![s].scan = [pc |-> "done", e |-> sc.e, got |-> seen, need |-> need]]
                   /\ UNCHANGED results
    /\ UNCHANGED <<epoch, delq, pool, stv, comp, vac, kf>>

\* storage-API reader (C08): open, then one batch per row-set, then close
ReadOpen(s) ==
    /\ Running(s) /\ ss[s].scan.pc = "pinned" /\ ss[s].st.k = "rd"
    /\ LET need == Needed(s) IN
       /\ fail' = (fail \/ ~(need \subseteq pool))
       /\ ss' = [ss EXCEPT ![s].scan = [@ EXCEPT !.pc = "open", !.left = need]]
    /\ UNCHANGED <<vmv, stv, results, comp, vac, kf>>

ReadBatch(s) ==
    /\ Running(s) /\ ss[s].scan.pc = "open" /\ ss[s].scan.left # {}
    /\ \E x \in ss[s].scan.left :
         LET sc == ss[s].scan
             batch == Get(rsrows, x, {}) \ UNION {Get(dvrows, d, {}) : d \in {d \in snap[sc.e].dv : d[1] = x[1] /\ d[2] = x[2]}}
         IN  /\ fail' = (fail \/ ~(x \in dirs))          \* the files must still be there
             /\ ss' = [ss EXCEPT ![s].scan = [@ EXCEPT !.left = @ \ {x}, !.got = @ \cup batch]]
    /\ UNCHANGED <<vmv, stv, results, comp, vac, kf>>

ReadClose(s) ==
    /\ Running(s) /\ ss[s].scan.pc = "open" /\ ss[s].scan.left = {}
    /\ Unpin(ss[s].scan.e)
    /\ Finish(s, [ok |-> TRUE, rows |-> ss[s].scan.got, e |-> ss[s].scan.e])
    /\ UNCHANGED <<epoch, delq, pool, stv, comp, vac, fail, kf>>

\* ---------------------------------------------------------------- INSERT task
\* (txn.before_pin -> txn.before_commit) pin, allocate the row-set id, mkdir, write and sync files
InsPin(s) ==
    /\ Running(s) /\ ss[s].st.k = "ins" /\ ss[s].task.pc = "prepin"
    /\ pins' = PinAt(pins, epoch)
    /\ LET key == <<ss[s].tid, nextRs>> IN
       /\ nextRs' = nextRs + 1
       /\ dirs' = dirs \cup {key}
       /\ rsrows' = Put(rsrows, key, ss[s].st.rows)
       /\ ss' = [ss EXCEPT ![s].task = [pc |-> "flushed", e |-> epoch, key |-> key]]
    /\ UNCHANGED <<epoch, snap, delq, pool, vacNote, cat, nextTid, nextDv, tlock, mlock, dvrows, man,
                   results, comp, vac, fail, kf>>

\* (txn.before_commit -> commit.applied) commit_changes takes the manifest lock and builds the
\* next snapshot from the current one; nobody else can commit until it is published
InsCommitA(s) ==
    /\ Running(s) /\ ss[s].st.k = "ins" /\ ss[s].task.pc = "flushed"
    /\ mlock = Free
    /\ mlock' = s
    /\ ss' = [ss EXCEPT ![s].task.pc = "applied"]
    /\ UNCHANGED <<vmv, cat, nextTid, nextRs, nextDv, tlock, dirs, rsrows, dvrows, man, results, comp, vac, fail, kf>>

\* (commit.applied -> txn.committed) append to the manifest, publish, release the lock
InsCommit(s) ==
    /\ Running(s) /\ ss[s].st.k = "ins" /\ ss[s].task.pc = "applied"
    /\ Commit(<<[o |-> "ARS", t |-> ss[s].task.key[1], r |-> ss[s].task.key[2]]>>)
    /\ mlock' = Free
    /\ ss' = [ss EXCEPT ![s].task.pc = "committed"]
    /\ IF TableGone(s) /\ "InsertAfterDrop" \in Dev THEN kf' = kf \cup {"InsertAfterDrop"} ELSE UNCHANGED kf
    /\ UNCHANGED <<pins, vacNote, cat, nextTid, nextRs, nextDv, tlock, dirs, rsrows, dvrows,
                   results, comp, vac, fail>>

\* (txn.committed -> sess.next) unpin, the statement is acknowledged
InsFinish(s) ==
    /\ Running(s) /\ ss[s].st.k = "ins" /\ ss[s].task.pc = "committed"
    /\ Unpin(ss[s].task.e)
    /\ Finish(s, [ok |-> TRUE, cnt |-> Cardinality(ss[s].st.rows)])
    /\ UNCHANGED <<epoch, delq, pool, stv, comp, vac, fail, kf>>

\* ---------------------------------------------------------------- DELETE task
\* (txn.before_pin -> txn.before_lock)
DelPin(s) ==
    /\ Running(s) /\ ss[s].st.k = "del" /\ ss[s].task.pc = "prepin"
    /\ pins' = PinAt(pins, epoch)
    /\ ss' = [ss EXCEPT ![s].task = [pc |-> "prelock", e |-> epoch]]
    /\ UNCHANGED <<epoch, snap, delq, pool, vacNote, stv, results, comp, vac, fail, kf>>

\* (txn.before_lock -> txn.locked) the per-table lock shared with the compactor
DelLock(s) ==
    /\ Running(s) /\ ss[s].st.k = "del" /\ ss[s].task.pc = "prelock"
    /\ tlock[ss[s].tid] = Free
    /\ tlock' = [tlock EXCEPT ![ss[s].tid] = s]
    /\ ss' = [ss EXCEPT ![s].task.pc = "locked"]
    /\ UNCHANGED <<vmv, cat, nextTid, nextRs, nextDv, mlock, dirs, rsrows, dvrows, man, results, comp, vac, fail, kf>>

\* (txn.locked -> txn.before_commit | error) the row handlers of the scan are grouped by row-set;
\* every target row-set must still be live (else the statement fails: conflict); one DV file each.
DelPrep(s) ==
    /\ Running(s) /\ ss[s].st.k = "del" /\ ss[s].task.pc = "locked" /\ ss[s].scan.pc = "done"
    /\ LET t      == ss[s].tid
           hit    == ss[s].scan.got \cap ss[s].st.rows
           tgt    == {x \in ss[s].scan.need : Get(rsrows, x, {}) \cap hit # {}}
           \* rows another DELETE has hidden since this statement's scan
           gone   == UNION {(Get(rsrows, x, {}) \cap hit)
                              \cap UNION {Get(dvrows, d, {}) : d \in {d \in snap[epoch].dv : d[1] = t /\ d[2] = x[2]}}
                            : x \in tgt}
           liveNow == {x \in snap[epoch].rs : x[1] = t}
           q      == SetToSeq(tgt)
       IN  IF ~(tgt \subseteq liveNow) /\ ~("DeleteLostOnCompaction" \in Dev)
           THEN \* conflict: the transaction is dropped (unlock, unpin), the statement fails
                /\ tlock' = [tlock EXCEPT ![t] = Free]
                /\ Unpin(ss[s].task.e)
                /\ Finish(s, [ok |-> FALSE, why |-> "conflict"])
                /\ UNCHANGED <<nextDv, dvrows, kf>>
           ELSE /\ nextDv' = nextDv + Len(q)
                /\ dvrows' = [d \in DOMAIN dvrows \cup {<<t, q[i][2], nextDv + i - 1>> : i \in 1..Len(q)} |->
                                IF d \in DOMAIN dvrows THEN dvrows[d]
                                ELSE LET i == d[3] - nextDv + 1 IN rsrows[q[i]] \cap hit]
                /\ ss' = [ss EXCEPT ![s].task = [pc |-> "prepared", e |-> ss[s].task.e,
                            ops |-> [i \in 1..Len(q) |-> [o |-> "ADV", t |-> t, r |-> q[i][2], d |-> nextDv + i - 1]],
                            cnt |-> Cardinality(hit)]]
                /\ kf' = kf \cup (IF ~(tgt \subseteq liveNow) THEN {"DeleteLostOnCompaction"} ELSE {})
                             \cup (IF gone # {} /\ tgt \subseteq liveNow /\ "DoubleDeleteCount" \in Dev
                                   THEN {"DoubleDeleteCount"} ELSE {})
                /\ UNCHANGED <<tlock, pins, vacNote, snap, results>>
    /\ UNCHANGED <<epoch, delq, pool, cat, nextTid, nextRs, mlock, dirs, rsrows, man, comp, vac, fail>>

\* (txn.before_commit -> commit.applied)
DelCommitA(s) ==
    /\ Running(s) /\ ss[s].st.k = "del" /\ ss[s].task.pc = "prepared"
    /\ mlock = Free
    /\ mlock' = s
    /\ ss' = [ss EXCEPT ![s].task.pc = "applied"]
    /\ UNCHANGED <<vmv, cat, nextTid, nextRs, nextDv, tlock, dirs, rsrows, dvrows, man, results, comp, vac, fail, kf>>

\* (commit.applied -> txn.committed)
DelCommit(s) ==
    /\ Running(s) /\ ss[s].st.k = "del" /\ ss[s].task.pc = "applied"
    /\ Commit(ss[s].task.ops)
    /\ mlock' = Free
    /\ ss' = [ss EXCEPT ![s].task.pc = "committed"]
    /\ UNCHANGED <<pins, vacNote, cat, nextTid, nextRs, nextDv, tlock, dirs, rsrows, dvrows,
                   results, comp, vac, fail, kf>>

\* (txn.committed -> sess.next) unlock, unpin, acknowledge the number of rows
DelFinish(s) ==
    /\ Running(s) /\ ss[s].st.k = "del" /\ ss[s].task.pc = "committed"
    /\ tlock' = [tlock EXCEPT ![ss[s].tid] = Free]
    /\ Unpin(ss[s].task.e)
    /\ Finish(s, [ok |-> TRUE, cnt |-> ss[s].task.cnt])
    /\ UNCHANGED <<epoch, delq, pool, cat, nextTid, nextRs, nextDv, mlock, dirs, rsrows, dvrows, man,
                   comp, vac, fail, kf>>

\* ------------------------------------------------------------------------ DDL
\* (ddl.create.logged -> sess.next) apply to the catalog; fails if the name exists by now,
\* but the CreateTable record is already durable
CreateApply(s) ==
    /\ Running(s) /\ ss[s].st.k = "ct" /\ ss[s].task.pc = "logged"
    /\ LET n == ss[s].st.t IN
       IF cat[n].k # "none"
       THEN /\ Finish(s, [ok |-> FALSE, why |-> "duplicated"])
            /\ kf' = IF "DupCreateLogged" \in Dev THEN kf \cup {"DupCreateLogged"} ELSE kf
            /\ UNCHANGED <<cat, nextTid>>
       ELSE /\ cat' = [cat EXCEPT ![n] = [k |-> "table", id |-> nextTid]]
            /\ nextTid' = nextTid + 1
            /\ Finish(s, [ok |-> TRUE, cnt |-> 1])
            \* ids are handed out when the catalog is changed, the log is written before: a CREATE of another name
            \* that was logged earlier but is applied later gets the larger id, and replay (which numbers the tables
            \* in log order) gives the two tables each other's ids (F36)
            /\ LET PosCT(name) == CHOOSE i \in DOMAIN man : /\ man[i].o = "CT" /\ man[i].n = name
                                                            /\ \A j \in DOMAIN man : j > i => ~(man[j].o = "CT" /\ man[j].n = name)
                   overtaken == \E o \in DOMAIN ss : /\ o # s /\ ss[o].pc = "run" /\ ss[o].st.k = "ct"
                                                     /\ ss[o].task.pc = "logged" /\ ss[o].st.t # n
                                                     /\ PosCT(ss[o].st.t) < PosCT(n)
               IN kf' = IF overtaken /\ "CreateIdOrder" \in Dev THEN kf \cup {"CreateIdOrder"} ELSE kf
    /\ UNCHANGED <<vmv, nextRs, nextDv, tlock, mlock, dirs, rsrows, dvrows, man, comp, vac, fail>>

\* (ddl.drop.applied -> ddl.drop.pinned) pin, list the row-sets and DVs of the pinned snapshot
DropPin(s) ==
    /\ Running(s) /\ ss[s].st.k = "dt" /\ ss[s].task.pc = "applied"
    /\ pins' = PinAt(pins, epoch)
    /\ LET t  == ss[s].tid
           rs == {x \in snap[epoch].rs : x[1] = t}
           dv == {d \in snap[epoch].dv : d[1] = t /\ <<d[1], d[2]>> \in rs}
           q  == SetToSeq(rs)
           qd == SetToSeq(dv)
       IN  ss' = [ss EXCEPT ![s].task = [pc |-> "pinned", e |-> epoch,
                    ops |-> <<[o |-> "DT", t |-> t]>>
                            \o [i \in 1..Len(q) |-> [o |-> "DRS", t |-> t, r |-> q[i][2]]]
                            \o [i \in 1..Len(qd) |-> [o |-> "DDV", t |-> t, r |-> qd[i][2], d |-> qd[i][3]]]]]
    /\ UNCHANGED <<epoch, snap, delq, pool, vacNote, stv, results, comp, vac, fail, kf>>

\* (ddl.drop.pinned -> sess.next) commit, unpin, acknowledge
DropCommit(s) ==
    /\ Running(s) /\ ss[s].st.k = "dt" /\ ss[s].task.pc = "pinned"
    /\ mlock = Free
    /\ LET ops == ss[s].task.ops
           e   == ss[s].task.e
       IN  IF DrsPanics(snap[epoch], ops, 1)
           THEN /\ fail' = TRUE
                /\ kf' = kf \cup ({"DropRaceUnwrap"} \cap Dev)
                /\ pins' = UnpinAt(pins, e)
                /\ vacNote' = IF Notifies(pins, e, epoch) THEN Cap(vacNote + 1) ELSE vacNote
                /\ snap' = Prune(snap, UnpinAt(pins, e), epoch)
                /\ Finish(s, [ok |-> FALSE, why |-> "panic"])
                /\ UNCHANGED <<epoch, delq, pool, man>>
           ELSE /\ Commit(ops)
                /\ pins' = UnpinAt(pins, e)
                /\ vacNote' = IF Notifies(pins, e, epoch + 1) THEN Cap(vacNote + 1) ELSE vacNote
                /\ Finish(s, [ok |-> TRUE, cnt |-> 1])
                /\ UNCHANGED <<fail, kf>>
    /\ UNCHANGED <<cat, nextTid, nextRs, nextDv, tlock, mlock, dirs, rsrows, dvrows, comp, vac>>

(***************************************************************************)
(* Compactor.  comp = [pc, pass, todo (tables still to visit), t, e, ops]  *)
(***************************************************************************)
\* (compactor.wake -> compactor.before_try_lock | pass_done) clone the table map
CompWake ==
    /\ comp.pc = "sleep" /\ comp.pass < MaxPasses
    /\ \E q \in {p \in [1..Cardinality({n \in Names : cat[n].k = "table"}) -> {cat[n].id : n \in {m \in Names : cat[m].k = "table"}}] :
                    \A i, j \in DOMAIN p : i # j => p[i] # p[j]} :        \* HashMap order: any
         comp' = [pc |-> IF Len(q) = 0 THEN "done" ELSE "visit", pass |-> comp.pass + 1, todo |-> q]
    /\ UNCHANGED <<vmv, stv, ss, results, vac, fail, kf>>

CompNext(c) == IF Len(c.todo) <= 1 THEN [pc |-> "done", pass |-> c.pass, todo |-> <<>>]
               ELSE [pc |-> "visit", pass |-> c.pass, todo |-> Tail(c.todo)]

\* (compactor.before_try_lock -> compactor.before_commit | next table | pass_done)
\* try-lock; pin (under the lock); select; read through the pinned DVs; write the new row-set
CompVisit ==
    /\ comp.pc = "visit"
    /\ LET t == comp.todo[1] IN
       IF tlock[t] # Free
       THEN comp' = CompNext(comp) /\ UNCHANGED <<vmv, stv, fail>>
       ELSE LET sn == snap[epoch]
                rs == {x \in sn.rs : x[1] = t}
                dv == {d \in sn.dv : d[1] = t}
                out == VisibleIn(sn, t)
                q  == SetToSeq(rs)
                qd == SetToSeq(dv)
            IN  IF Cardinality(rs) < 2
                THEN comp' = CompNext(comp) /\ UNCHANGED <<vmv, stv, fail>>
                ELSE /\ tlock' = [tlock EXCEPT ![t] = "compactor"]
                     /\ pins' = PinAt(pins, epoch)
                     /\ fail' = (fail \/ ~(rs \subseteq pool /\ rs \subseteq dirs))
                     /\ nextRs' = IF out = {} THEN nextRs ELSE nextRs + 1
                     /\ dirs' = IF out = {} THEN dirs ELSE dirs \cup {<<t, nextRs>>}
                     /\ rsrows' = IF out = {} THEN rsrows ELSE Put(rsrows, <<t, nextRs>>, out)
                     /\ comp' = [comp EXCEPT !.pc = "written"] @@
                                [t |-> t, e |-> epoch,
                                 ops |-> (IF out = {} THEN <<>> ELSE <<[o |-> "ARS", t |-> t, r |-> nextRs]>>)
                                         \o [i \in 1..Len(q) |-> [o |-> "DRS", t |-> t, r |-> q[i][2]]]
                                         \o [i \in 1..Len(qd) |-> [o |-> "DDV", t |-> t, r |-> qd[i][2], d |-> qd[i][3]]]]
                     /\ UNCHANGED <<epoch, snap, delq, pool, vacNote, cat, nextTid, nextDv, mlock, dvrows, man>>
    /\ UNCHANGED <<ss, results, vac, kf>>

\* (compactor.before_commit -> commit.applied | dead) take the manifest lock, apply to the snapshot
CompCommitA ==
    /\ comp.pc = "written" /\ mlock = Free
    /\ ~DrsPanics(snap[epoch], comp.ops, 1)
    /\ mlock' = "compactor"
    /\ comp' = [comp EXCEPT !.pc = "applied"]
    /\ UNCHANGED <<vmv, cat, nextTid, nextRs, nextDv, tlock, dirs, rsrows, dvrows, man, ss, results, vac, fail, kf>>

\* (commit.applied -> compactor.committed), or the panic of the apply step
CompCommit ==
    /\ \/ comp.pc = "applied"
       \/ (comp.pc = "written" /\ mlock = Free /\ DrsPanics(snap[epoch], comp.ops, 1))
    /\ IF DrsPanics(snap[epoch], comp.ops, 1)
       THEN \* the table was dropped meanwhile: unwrap() panics inside commit_changes; the
            \* compactor task dies holding nothing (guards are dropped by unwinding)
            /\ fail' = TRUE
            /\ kf' = kf \cup ({"DropRaceUnwrap"} \cap Dev)
            /\ tlock' = [tlock EXCEPT ![comp.t] = Free]
            /\ pins' = UnpinAt(pins, comp.e)
            /\ snap' = Prune(snap, UnpinAt(pins, comp.e), epoch)
            /\ comp' = [pc |-> "dead", pass |-> comp.pass, todo |-> <<>>]
            /\ UNCHANGED <<epoch, delq, pool, vacNote, man, mlock>>
       ELSE /\ Commit(comp.ops)
            /\ mlock' = Free
            /\ comp' = [comp EXCEPT !.pc = "committed"]
            \* the table was dropped since the visit: its new row-set is committed all the same
            /\ kf' = IF ~(\E n \in Names : cat[n].k = "table" /\ cat[n].id = comp.t)
                     THEN kf \cup ({"DropRaceUnwrap"} \cap Dev) ELSE kf
            /\ UNCHANGED <<pins, vacNote, tlock, fail>>
    /\ UNCHANGED <<cat, nextTid, nextRs, nextDv, dirs, rsrows, dvrows, ss, results, vac>>

\* (compactor.committed -> next before_try_lock | pass_done) unpin, unlock
CompRelease ==
    /\ comp.pc = "committed"
    /\ tlock' = [tlock EXCEPT ![comp.t] = Free]
    /\ Unpin(comp.e)
    /\ comp' = CompNext([pc |-> "visit", pass |-> comp.pass, todo |-> comp.todo])
    /\ UNCHANGED <<epoch, delq, pool, cat, nextTid, nextRs, nextDv, mlock, dirs, rsrows, dvrows, man,
                   ss, results, vac, fail, kf>>

\* (compactor.pass_done -> sleep)
CompSleep ==
    /\ comp.pc = "done"
    /\ comp' = [pc |-> "sleep", pass |-> comp.pass, todo |-> <<>>]
    /\ UNCHANGED <<vmv, stv, ss, results, vac, fail, kf>>

(***************************************************************************)
(* Vacuum (VersionManager::run / find_vacuum / do_vacuum).                 *)
(***************************************************************************)
MinPinned == IF DOMAIN pins = {} THEN epoch
             ELSE CHOOSE e \in DOMAIN pins : \A f \in DOMAIN pins : e <= f

\* (vacuum.wake -> vacuum.unlink | idle) deletions of epochs <= the oldest pinned epoch (or the
\* current one when nothing is pinned) are taken; their objects leave the pool
VacFind ==
    /\ vac.pc = "idle" /\ vacNote > 0
    /\ LET ve  == IF "VacuumOffByOne" \in Dev THEN MinPinned + 1 ELSE MinPinned
           E   == {e \in DOMAIN delq : e <= ve}
           D   == UNION {delq[e] : e \in E}
           \* the code collects the deletions in a list: a row-set retired twice (by a DROP TABLE
           \* and by a compaction that raced it) is in it twice
           B   == [x \in D |-> Cardinality({e \in E : x \in delq[e]})]
       IN  /\ delq' = Del(delq, E)
           /\ pool' = pool \ D
           /\ vac' = IF D = {} THEN [pc |-> "idle", todo |-> <<>>] ELSE [pc |-> "unlink", todo |-> B]
    /\ vacNote' = vacNote - 1
    /\ UNCHANGED <<epoch, snap, pins, stv, ss, results, comp, fail, kf>>

\* (vacuum.unlink -> next unlink | idle) remove_dir_all of one row-set; a directory that is
\* already gone is an error that ends the vacuum task
VacUnlink ==
    /\ vac.pc = "unlink"
    /\ \E x \in DOMAIN vac.todo :
         IF x \in dirs
         THEN /\ dirs' = dirs \ {x}
              /\ vac' = LET rest == IF vac.todo[x] = 1 THEN Del(vac.todo, {x})
                                    ELSE Put(vac.todo, x, vac.todo[x] - 1)
                        IN IF DOMAIN rest = {} THEN [pc |-> "idle", todo |-> <<>>] ELSE [vac EXCEPT !.todo = rest]
              /\ UNCHANGED <<fail, kf>>
         ELSE /\ vac' = [pc |-> "dead", todo |-> <<>>]
              /\ fail' = TRUE
              /\ kf' = kf \cup ({"DropRaceUnwrap"} \cap Dev)
              /\ UNCHANGED dirs
    /\ UNCHANGED <<vmv, cat, nextTid, nextRs, nextDv, tlock, mlock, rsrows, dvrows, man, ss, results, comp>>

(***************************************************************************)
SessionStep(s) ==
    \/ Bind(s) \/ Start(s) \/ ScanPin(s) \/ ScanRead(s) \/ ReadOpen(s) \/ ReadBatch(s) \/ ReadClose(s)
    \/ InsPin(s) \/ InsCommitA(s) \/ InsCommit(s) \/ InsFinish(s)
    \/ DelPin(s) \/ DelLock(s) \/ DelPrep(s) \/ DelCommitA(s) \/ DelCommit(s) \/ DelFinish(s)
    \/ CreateApply(s) \/ DropPin(s) \/ DropCommit(s)

CompStep == CompWake \/ CompVisit \/ CompCommitA \/ CompCommit \/ CompRelease \/ CompSleep
VacStep == VacFind \/ VacUnlink

Next == (\E s \in Sessions : SessionStep(s)) \/ CompStep \/ VacStep

Spec == Init /\ [][Next]_vars

(***************************************************************************)
(* Properties.                                                             *)
(***************************************************************************)
Pinned == {ss[s].scan.e : s \in {s \in Sessions : ss[s].pc = "run" /\ ss[s].scan.pc \in {"pinned", "open"}}}

\* C08: a directory is never unlinked, and an object never leaves the pool, while a pinned
\* snapshot still contains the row-set.
NoUnlinkWhilePinned ==
    \A e \in DOMAIN pins : e \in DOMAIN snap => (snap[e].rs \subseteq dirs /\ snap[e].rs \subseteq pool)

\* C08: no reader ever meets a missing object or file, no task panics.
NoFailure == ~fail

\* C08: a finished reader returned exactly the rows of the version it pinned -- by construction
\* its rows are computed from `snap[e]'; what must hold is that this equals the committed
\* content at pin time, i.e. snapshots are immutable once published:
Quiescent ==
    /\ \A s \in Sessions : ss[s].pc = "idle" /\ ~HasNext(s)
    /\ comp.pc \in {"sleep", "dead"}
    /\ (vac.pc = "dead" \/ (vac.pc = "idle" /\ vacNote = 0))

(***************************************************************************)
(* Serial explanation (C09, C10): some order of the acknowledged           *)
(* statements, respecting every session's own order, executed one at a     *)
(* time on the abstract database, yields every acknowledged result and     *)
(* the final content of every table.                                       *)
(***************************************************************************)
InitDb == [n \in Names |-> IF n \in InitNames
                           THEN [k |-> "table", rows |-> UNION {InitRows[n][i] : i \in 1..Len(InitRows[n])}]
                           ELSE [k |-> "none", rows |-> {}]]

Explains(db, pos, final) == ExplainsG(Names, Sessions, Prog, results, db, pos, final)

FinalDb == [n \in Names |-> IF cat[n].k = "table" THEN [k |-> "table", rows |-> TableRows(n)]
                            ELSE [k |-> "none", rows |-> {}]]

\* C09 / C10
Serializable == Quiescent => Explains(InitDb, [s \in Sessions |-> 0], FinalDb)

\* C09 / C10: the store reopens to the same tables
ReplayedDb ==
    LET r == Replay(man) IN
    [n \in Names |-> IF r.ids[n] # NoId
                     THEN [k |-> "table", rows |-> VisibleIn([rs |-> r.rs, dv |-> r.dv], r.ids[n])]
                     ELSE [k |-> "none", rows |-> {}]]
Reopenable ==
    Quiescent =>
      LET r == Replay(man) IN
      /\ r.ok
      /\ \A x \in r.rs : (\E n \in Names : r.ids[n] = x[1]) /\ x \in dirs
      /\ \A d \in r.dv : \E n \in Names : r.ids[n] = d[1]
      /\ ReplayedDb = FinalDb

\* nobody is left holding a lock or a pin
Clean == Quiescent => (pins = <<>> /\ mlock = Free /\ \A t \in DOMAIN tlock : tlock[t] = Free)

\* disk space is eventually reclaimed: at quiescence only live row-sets (and uncommitted
\* leftovers of failed statements) have directories -- reported, not required by any property
NoLeak == Quiescent => (\A x \in dirs : x \in snap[epoch].rs \/ \E e \in DOMAIN delq : x \in delq[e])

Known == kf # {}
KSerializable == Serializable \/ Known
KReopenable == Reopenable \/ Known
KNoFailure == NoFailure \/ Known
==============================================================================
