------------------------------- MODULE SqlSem -------------------------------
(***************************************************************************)
(* Reference semantics of the core SQL subset (C01, C02, C05, C11-C14,     *)
(* C16): an interpreter, written as TLA+ definitions and evaluated by TLC, *)
(* over queries given as nested tuples with resolved column references.    *)
(*                                                                         *)
(* Values   <<"n",0>> NULL | <<"b",0|1>> | <<"i",k>> | <<"s",<<codes>>>>   *)
(* Row      sequence of values;   Table  sequence of rows (a bag)          *)
(* Db       record  name |-> table                                         *)
(*                                                                         *)
(* Expr     <<"c",d,i>>        column i of the row at depth d (0 = own)    *)
(*          <<"k",v>>          constant value v                            *)
(*          <<op,a,b>>         + - * / % = <> < <= > >= and or like        *)
(*          <<"not",a>> <<"neg",a>> <<"isnull",a>> <<"notnull",a>> <<"castb",a>>        *)
(*          <<"case",c,a,b>>   CASE WHEN c THEN a ELSE b END               *)
(*          <<"in",a,<<v..>>,neg>>       a [NOT] IN (constants)            *)
(*          <<"inx",a,<<e..>>,neg>>      a [NOT] IN (expressions)          *)
(*          <<"insub",a,q,neg>> <<"exists",q,neg>> <<"scalar",q>>          *)
(*          <<"agg",f,a>>      f: count* count sum min max countd (group)  *)
(* From     <<"t",name,width>> | <<"join",jt,l,r,on,wl,wr>>                *)
(*            jt: inner left right full cross                              *)
(* Query    [sel, from, where, grp, hav, agg, dist, ord, lim, off]         *)
(*            sel: exprs; grp: exprs; agg: TRUE if aggregation; ord:       *)
(*            <<<<output column, "asc"|"desc">>..>>; lim: -1 = none        *)
(***************************************************************************)
EXTENDS Naturals, Integers, Sequences, FiniteSets, TLC

Null == <<"n", 0>>
B(x) == <<"b", IF x THEN 1 ELSE 0>>
I(x) == <<"i", x>>
IsNull(v) == v[1] = "n"
IsTrue(v) == v[1] = "b" /\ v[2] = 1

(***************************************************************************)
(* Ordering of values (ORDER BY, MIN/MAX, comparison operators).  NULL is  *)
(* the smallest value for sorting; comparisons with NULL yield NULL.       *)
(***************************************************************************)
RECURSIVE SeqLess(_, _)
SeqLess(a, b) ==                      \* lexicographic order of code sequences
    IF Len(b) = 0 THEN FALSE
    ELSE IF Len(a) = 0 THEN TRUE
    ELSE IF a[1] < b[1] THEN TRUE
    ELSE IF a[1] > b[1] THEN FALSE
    ELSE SeqLess(Tail(a), Tail(b))

\* strict order on non-null values of the same kind
Less(a, b) ==
    CASE a[1] = "s" -> SeqLess(a[2], b[2])
      [] OTHER -> a[2] < b[2]

\* total preorder used for sorting: NULL first
SortLess(a, b) ==
    IF IsNull(a) THEN ~IsNull(b)
    ELSE IF IsNull(b) THEN FALSE
    ELSE Less(a, b)

(***************************************************************************)
(* Scalar operators (three-valued logic).                                  *)
(***************************************************************************)
And3(a, b) ==
    IF (a[1] = "b" /\ a[2] = 0) \/ (b[1] = "b" /\ b[2] = 0) THEN B(FALSE)
    ELSE IF IsNull(a) \/ IsNull(b) THEN Null ELSE B(TRUE)
Or3(a, b) ==
    IF IsTrue(a) \/ IsTrue(b) THEN B(TRUE)
    ELSE IF IsNull(a) \/ IsNull(b) THEN Null ELSE B(FALSE)
Not3(a) == IF IsNull(a) THEN Null ELSE B(a[2] = 0)

\* integer division and remainder truncate toward zero
Abs(x) == IF x < 0 THEN -x ELSE x
TDiv(x, y) == LET q == Abs(x) \div Abs(y) IN IF (x < 0) = (y < 0) THEN q ELSE -q
TMod(x, y) == x - y * TDiv(x, y)

\* LIKE with % and _ on code sequences (37 = '%', 95 = '_')
RECURSIVE LikeM(_, _)
LikeM(s, p) ==
    IF Len(p) = 0 THEN Len(s) = 0
    ELSE IF p[1] = 37 THEN LikeM(s, Tail(p)) \/ (Len(s) > 0 /\ LikeM(Tail(s), p))
    ELSE Len(s) > 0 /\ (p[1] = 95 \/ p[1] = s[1]) /\ LikeM(Tail(s), Tail(p))

Bin(op, a, b) ==
    CASE op = "and" -> And3(a, b)
      [] op = "or"  -> Or3(a, b)
      [] IsNull(a) \/ IsNull(b) -> Null
      [] op = "+" -> I(a[2] + b[2])
      [] op = "-" -> I(a[2] - b[2])
      [] op = "*" -> I(a[2] * b[2])
      [] op = "/" -> IF b[2] = 0 THEN Null ELSE I(TDiv(a[2], b[2]))
      [] op = "%" -> IF b[2] = 0 THEN Null ELSE I(TMod(a[2], b[2]))
      [] op = "="  -> B(a = b)
      [] op = "<>" -> B(a # b)
      [] op = "<"  -> B(Less(a, b))
      [] op = "<=" -> B(Less(a, b) \/ a = b)
      [] op = ">"  -> B(Less(b, a))
      [] op = ">=" -> B(Less(b, a) \/ a = b)
      [] op = "like" -> B(LikeM(a[2], b[2]))
      [] op = "||" -> <<"s", a[2] \o b[2]>>

(***************************************************************************)
(* Bags of rows as sequences.                                              *)
(***************************************************************************)
Range(q) == {q[i] : i \in DOMAIN q}
Count(q, x) == Cardinality({i \in DOMAIN q : q[i] = x})
BagEq(a, b) == Len(a) = Len(b) /\ \A x \in Range(a) \cup Range(b) : Count(a, x) = Count(b, x)
SubBag(a, b) == \A x \in Range(a) : Count(a, x) <= Count(b, x)

RECURSIVE FilterSeq(_, _)
FilterSeq(q, keep) ==                 \* keep: set of indices
    IF Len(q) = 0 THEN <<>>
    ELSE LET rest == FilterSeq([i \in 1..(Len(q) - 1) |-> q[i]], keep \ {Len(q)})
         IN IF Len(q) \in keep THEN Append(rest, q[Len(q)]) ELSE rest

RECURSIVE Flatten(_)
Flatten(qq) == IF Len(qq) = 0 THEN <<>> ELSE qq[1] \o Flatten(Tail(qq))

RECURSIVE Dedup(_)
Dedup(q) == IF Len(q) = 0 THEN <<>>
            ELSE LET h == q[1]
                     t == Dedup(Tail(q))
                 IN IF h \in Range(t) THEN t ELSE <<h>> \o t

Nulls(n) == [i \in 1..n |-> Null]

\* rows compared on the ORDER BY keys  ord = <<<<col, dir>>, ...>>
RECURSIVE KeyBefore(_, _, _)
KeyBefore(r1, r2, ord) ==
    IF Len(ord) = 0 THEN FALSE
    ELSE LET c == ord[1][1]
             a == IF ord[1][2] = "asc" THEN r1[c] ELSE r2[c]
             b == IF ord[1][2] = "asc" THEN r2[c] ELSE r1[c]
         IN IF SortLess(a, b) THEN TRUE
            ELSE IF SortLess(b, a) THEN FALSE
            ELSE KeyBefore(r1, r2, Tail(ord))

KeysOf(r, ord) == [i \in 1..Len(ord) |-> r[ord[i][1]]]

\* insertion sort on the ORDER BY keys
RECURSIVE InsertSorted(_, _, _)
InsertSorted(q, x, ord) ==
    IF Len(q) = 0 THEN <<x>>
    ELSE IF KeyBefore(x, q[1], ord) THEN <<x>> \o q
    ELSE <<q[1]>> \o InsertSorted(Tail(q), x, ord)
RECURSIVE SortBy(_, _)
SortBy(q, ord) ==
    IF Len(q) = 0 THEN <<>> ELSE InsertSorted(SortBy(Tail(q), ord), q[1], ord)

(***************************************************************************)
(* The interpreter.  env = <<row at depth 0, row at depth 1, ...>>;        *)
(* grp = the rows of the current group (<<>> outside aggregation).         *)
(***************************************************************************)
RECURSIVE Ev(_, _, _, _), Q(_, _, _), F(_, _, _)

AggOf(f, vals) ==                       \* vals: sequence of argument values of the group
    LET nn == FilterSeq(vals, {i \in DOMAIN vals : ~IsNull(vals[i])}) IN
    CASE f = "count*" -> I(Len(vals))
      [] f = "count"  -> I(Len(nn))
      [] f = "countd" -> I(Cardinality(Range(nn)))
      [] f = "sum"    -> IF Len(nn) = 0 THEN Null
                         ELSE LET RECURSIVE S(_) S(i) == IF i = 0 THEN 0 ELSE S(i - 1) + nn[i][2]
                              IN I(S(Len(nn)))
      [] f = "min"    -> IF Len(nn) = 0 THEN Null
                         ELSE CHOOSE x \in Range(nn) : \A y \in Range(nn) : ~Less(y, x)
      [] f = "max"    -> IF Len(nn) = 0 THEN Null
                         ELSE CHOOSE x \in Range(nn) : \A y \in Range(nn) : ~Less(x, y)

Ev(e, env, grp, db) ==
    LET k == e[1] IN
    CASE k = "c" -> env[e[2] + 1][e[3]]
      [] k = "k" -> e[2]
      [] k = "not" -> Not3(Ev(e[2], env, grp, db))
      [] k = "neg" -> LET v == Ev(e[2], env, grp, db) IN IF IsNull(v) THEN Null ELSE I(0 - v[2])
      [] k = "castb" -> LET v == Ev(e[2], env, grp, db) IN IF IsNull(v) THEN Null ELSE B(v[2] # 0)
      [] k = "isnull"  -> B(IsNull(Ev(e[2], env, grp, db)))
      [] k = "notnull" -> B(~IsNull(Ev(e[2], env, grp, db)))
      [] k = "case" -> IF IsTrue(Ev(e[2], env, grp, db)) THEN Ev(e[3], env, grp, db)
                       ELSE Ev(e[4], env, grp, db)
      [] k = "in" ->
           LET v == Ev(e[2], env, grp, db)
               hit == \E i \in DOMAIN e[3] : e[3][i] = v
               unk == IsNull(v) \/ \E i \in DOMAIN e[3] : IsNull(e[3][i])
               r == IF IsNull(v) THEN Null ELSE IF hit THEN B(TRUE) ELSE IF unk THEN Null ELSE B(FALSE)
           IN IF e[4] THEN Not3(r) ELSE r
      [] k = "inx" ->      \* IN over a list of expressions: the disjunction of the equalities
           LET v  == Ev(e[2], env, grp, db)
               vs == [i \in DOMAIN e[3] |-> Ev(e[3][i], env, grp, db)]
               hit == \E i \in DOMAIN vs : ~IsNull(vs[i]) /\ vs[i] = v
               unk == \E i \in DOMAIN vs : IsNull(vs[i])
               r == IF IsNull(v) THEN Null ELSE IF hit THEN B(TRUE) ELSE IF unk THEN Null ELSE B(FALSE)
           IN IF e[4] THEN Not3(r) ELSE r
      [] k = "insub" ->
           LET v == Ev(e[2], env, grp, db)
               rows == Q(e[3], env, db)
               vals == [i \in DOMAIN rows |-> rows[i][1]]
               hit == \E i \in DOMAIN vals : vals[i] = v /\ ~IsNull(v)
               unk == Len(vals) > 0 /\ (IsNull(v) \/ \E i \in DOMAIN vals : IsNull(vals[i]))
               r == IF hit THEN B(TRUE) ELSE IF unk THEN Null ELSE B(FALSE)
           IN IF e[4] THEN Not3(r) ELSE r
      [] k = "exists" ->
           LET r == B(Len(Q(e[2], env, db)) > 0) IN IF e[3] THEN Not3(r) ELSE r
      [] k = "scalar" ->
           LET rows == Q(e[2], env, db) IN IF Len(rows) = 0 THEN Null ELSE rows[1][1]
      [] k = "agg" ->
           AggOf(e[2], [i \in DOMAIN grp |->
                          IF e[2] = "count*" THEN I(1) ELSE Ev(e[3], <<grp[i]>> \o Tail(env), <<>>, db)])
      [] OTHER -> Bin(k, Ev(e[2], env, grp, db), Ev(e[3], env, grp, db))

\* FROM: sequence of concatenated rows.  `outer' = env of the enclosing query (without own row)
F(f, outer, db) ==
    IF f[1] = "t" THEN db[f[2]]
    ELSE IF f[1] = "sub" THEN Q(f[2], <<>>, db)      \* derived table: its own query, no access to the outer row
    ELSE LET jt == f[2]
             L == F(f[3], outer, db)
             R == F(f[4], outer, db)
             on == f[5]
             wl == f[6]
             wr == f[7]
             Match(l, r) == jt = "cross" \/ IsTrue(Ev(on, <<l \o r>> \o outer, <<>>, db))
             inner == Flatten([i \in DOMAIN L |->
                         Flatten([j \in DOMAIN R |-> IF Match(L[i], R[j]) THEN <<L[i] \o R[j]>> ELSE <<>>])])
             lonly == Flatten([i \in DOMAIN L |->
                         IF \E j \in DOMAIN R : Match(L[i], R[j]) THEN <<>> ELSE <<L[i] \o Nulls(wr)>>])
             ronly == Flatten([j \in DOMAIN R |->
                         IF \E i \in DOMAIN L : Match(L[i], R[j]) THEN <<>> ELSE <<Nulls(wl) \o R[j]>>])
         IN CASE jt \in {"inner", "cross"} -> inner
              [] jt = "left"  -> inner \o lonly
              [] jt = "right" -> inner \o ronly
              [] jt = "full"  -> inner \o lonly \o ronly

\* the part of a query before DISTINCT / ORDER BY / LIMIT
Core(q, outer, db) ==
    LET src  == F(q.from, outer, db)
        kept == FilterSeq(src, {i \in DOMAIN src : IsTrue(Ev(q.where, <<src[i]>> \o outer, <<>>, db))})
    IN IF ~q.agg
       THEN [i \in DOMAIN kept |-> [j \in DOMAIN q.sel |-> Ev(q.sel[j], <<kept[i]>> \o outer, <<>>, db)]]
       ELSE LET KeyOf(r) == [j \in DOMAIN q.grp |-> Ev(q.grp[j], <<r>> \o outer, <<>>, db)]
                keys == IF Len(q.grp) = 0 THEN <<<<>>>> ELSE Dedup([i \in DOMAIN kept |-> KeyOf(kept[i])])
                Grp(key) == IF Len(q.grp) = 0 THEN kept
                            ELSE FilterSeq(kept, {i \in DOMAIN kept : KeyOf(kept[i]) = key})
                \* one output row per group; a global aggregate has one group even when empty
                RowOf(key) == LET g == Grp(key)
                                  rep == IF Len(g) = 0 THEN <<>> ELSE g[1]
                              IN [j \in DOMAIN q.sel |-> Ev(q.sel[j], <<rep>> \o outer, g, db)]
                Keep(key) == LET g == Grp(key)
                                 rep == IF Len(g) = 0 THEN <<>> ELSE g[1]
                             IN IsTrue(Ev(q.hav, <<rep>> \o outer, g, db))
                ks == FilterSeq(keys, {i \in DOMAIN keys : Keep(keys[i])})
            IN [i \in DOMAIN ks |-> RowOf(ks[i])]

Sliced(rows, lim, off) ==
    LET n == Len(rows)
        lo == IF off > n THEN n ELSE off
        hi == IF lim < 0 THEN n ELSE IF lo + lim > n THEN n ELSE lo + lim
    IN [i \in 1..(hi - lo) |-> rows[lo + i]]

Q(q, outer, db) ==
    LET c == Core(q, outer, db)
        d == IF q.dist THEN Dedup(c) ELSE c
        s == IF Len(q.ord) = 0 THEN d ELSE SortBy(d, q.ord)
    IN Sliced(s, q.lim, q.off)

(***************************************************************************)
(* Comparison of an observed result with the semantics, as the properties  *)
(* prescribe and nothing finer: bags of rows; sequences only on the ORDER  *)
(* BY keys; LIMIT without ORDER BY = any sub-bag of the right size.        *)
(***************************************************************************)
RECURSIVE SortedBy(_, _)
SortedBy(rows, ord) ==
    Len(rows) <= 1 \/ (~KeyBefore(rows[2], rows[1], ord) /\ SortedBy(Tail(rows), ord))

Matches(q, db, obs) ==
    LET c == Core(q, <<>>, db)
        full == IF q.dist THEN Dedup(c) ELSE c
        want == Q(q, <<>>, db)
    IN IF Len(q.ord) = 0
       THEN IF q.lim < 0 /\ q.off = 0 THEN BagEq(obs, want)
            ELSE Len(obs) = Len(want) /\ SubBag(obs, full)
       ELSE /\ Len(obs) = Len(want)
            /\ SubBag(obs, full)
            /\ SortedBy(obs, q.ord)
            /\ [i \in DOMAIN obs |-> KeysOf(obs[i], q.ord)] = [i \in DOMAIN want |-> KeysOf(want[i], q.ord)]
==============================================================================
