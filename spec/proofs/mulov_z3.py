import sys, time
from z3 import *
def check(M, W):
    a, b = BitVecs("a b", W)
    Mv = BitVecVal(M, W); MIN = BitVecVal(-M-1, W)
    absx = lambda x: If(x < 0, -x, x)
    x, y = absx(a), absx(b)
    q = UDiv(Mv, y); r = URem(Mv, y)
    same = (a < 0) == (b < 0)
    mulov = If(Or(a == 0, b == 0), False,
            If(a == MIN, b != 1,
            If(b == MIN, a != 1,
            If(same, UGT(x, q), And(UGT(x, q), Not(And(r == y - 1, x == q + 1)))))))
    p = a * b          # exact: W is wide enough
    exact = Or(p > Mv, p < MIN)
    s = Solver(); s.set("timeout", 240000)
    s.add(a >= MIN, a <= Mv, b >= MIN, b <= Mv, mulov != exact)
    t = time.time(); r_ = s.check()
    print(M, r_, round(time.time()-t,1), s.model() if r_ == sat else "")
check(32767, 36)
check(2147483647, 68)
