------------------------------ MODULE ScalarOv ------------------------------
(***************************************************************************)
(* Scalar.tla detects integer overflow with tests that never leave the     *)
(* 32-bit integers TLC computes with (no a + b before the test).  Here the *)
(* same tests are stated over a symbolic bound M (MaxOf(ty) = M,           *)
(* MinOf(ty) = -M - 1) and proved equivalent to the mathematical           *)
(* definition "the exact result lies outside [-M-1, M]" over the           *)
(* unbounded integers (TLAPS, SMT back end).                               *)
(***************************************************************************)
EXTENDS Integers, TLAPS

AddOv(M, a, b) == (b > 0 /\ a > M - b) \/ (b < 0 /\ a < (-M - 1) - b)
SubOv(M, a, b) == (b < 0 /\ a > M + b) \/ (b > 0 /\ a < (-M - 1) + b)

THEOREM AddOvExact ==
    ASSUME NEW M \in Nat, NEW a \in Int, NEW b \in Int,
           a >= -M - 1, a <= M, b >= -M - 1, b <= M
    PROVE  AddOv(M, a, b) <=> (a + b > M \/ a + b < -M - 1)
  BY DEF AddOv

THEOREM SubOvExact ==
    ASSUME NEW M \in Nat, NEW a \in Int, NEW b \in Int,
           a >= -M - 1, a <= M, b >= -M - 1, b <= M
    PROVE  SubOv(M, a, b) <=> (a - b > M \/ a - b < -M - 1)
  BY DEF SubOv

\* unary minus fails exactly at the minimum
THEOREM NegExact ==
    ASSUME NEW M \in Nat, NEW a \in Int, a >= -M - 1, a <= M
    PROVE  (a = -M - 1) <=> (-a > M \/ -a < -M - 1)
  OBVIOUS
=============================================================================
