---------------------------- MODULE CatalogCore ----------------------------
(***************************************************************************)
(* The catalog actions of Catalog.tla without the replay plumbing, for any *)
(* set of names, and a machine-checked proof (TLAPS) that NoDangling is    *)
(* inductive: what TLC checks exhaustively for three names holds for every *)
(* number of names.  The refusal rule of DROP -- every view that selects   *)
(* from a dropped object is dropped with it -- is exactly what the step    *)
(* for Drop needs; without it (deviation DanglingDrop of Catalog.tla) the  *)
(* obligation fails.                                                       *)
(***************************************************************************)
EXTENDS TLAPS

CONSTANT Names
VARIABLES kind, deps
vars == <<kind, deps>>

Exists(n) == kind[n] # "none"
Dependents(n) == {w \in Names : kind[w] = "view" /\ n \in deps[w]}

CreateTable(n) ==
    /\ ~Exists(n)
    /\ kind' = [kind EXCEPT ![n] = "table"]
    /\ UNCHANGED deps

CreateView(n, src) ==
    /\ ~Exists(n)
    /\ \A m \in src : Exists(m)
    /\ kind' = [kind EXCEPT ![n] = "view"]
    /\ deps' = [deps EXCEPT ![n] = src]

Drop(S) ==
    /\ \A m \in S : Dependents(m) \subseteq S
    /\ kind' = [n \in Names |-> IF n \in S THEN "none" ELSE kind[n]]
    /\ deps' = [n \in Names |-> IF n \in S THEN {} ELSE deps[n]]

Next == \/ \E n \in Names : CreateTable(n)
        \/ \E n \in Names, src \in SUBSET Names : CreateView(n, src)
        \/ \E S \in SUBSET Names : Drop(S)

Init == kind = [n \in Names |-> "none"] /\ deps = [n \in Names |-> {}]
Spec == Init /\ [][Next]_vars

TypeOK == /\ kind \in [Names -> {"none", "table", "view"}]
          /\ deps \in [Names -> SUBSET Names]
NoDangling == \A w \in Names : kind[w] = "view" => \A m \in deps[w] : Exists(m)
Inv == TypeOK /\ NoDangling

LEMMA InitInv == Init => Inv
  BY DEF Init, Inv, TypeOK, NoDangling, Exists

LEMMA StepInv == Inv /\ [Next]_vars => Inv'
<1> SUFFICES ASSUME Inv, [Next]_vars PROVE Inv'
  OBVIOUS
<1>1. CASE UNCHANGED vars
  BY <1>1 DEF Inv, TypeOK, NoDangling, Exists, vars
<1>2. ASSUME NEW n \in Names, CreateTable(n) PROVE Inv'
  BY <1>2 DEF Inv, TypeOK, NoDangling, Exists, CreateTable
<1>3. ASSUME NEW n \in Names, NEW src \in SUBSET Names, CreateView(n, src) PROVE Inv'
  BY <1>3 DEF Inv, TypeOK, NoDangling, Exists, CreateView
<1>4. ASSUME NEW S \in SUBSET Names, Drop(S) PROVE Inv'
  <2>1. TypeOK'
    BY <1>4 DEF Inv, TypeOK, Drop
  <2>2. NoDangling'
    <3> SUFFICES ASSUME NEW w \in Names, kind'[w] = "view", NEW m \in deps'[w] PROVE kind'[m] # "none"
      BY DEF NoDangling, Exists
    <3>1. w \notin S /\ kind[w] = "view" /\ m \in deps[w]
      BY <1>4 DEF Drop, Inv, TypeOK
    <3>2. m \in Names /\ kind[m] # "none"
      BY <3>1 DEF Inv, TypeOK, NoDangling, Exists
    <3>3. m \notin S
      BY <1>4, <3>1, <3>2 DEF Drop, Dependents
    <3> QED
      BY <1>4, <3>2, <3>3 DEF Drop
  <2> QED
    BY <2>1, <2>2 DEF Inv
<1> QED
  BY <1>1, <1>2, <1>3, <1>4 DEF Next

THEOREM Safety == Spec => []Inv
  BY InitInv, StepInv, PTL DEF Spec
=============================================================================
