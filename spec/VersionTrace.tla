---------------------------- MODULE VersionTrace ----------------------------
(***************************************************************************)
(* Trace validation of the version manager (C08): the events recorded at   *)
(* the linearisation points of VersionManager (pin, unpin, the operations  *)
(* of a commit, publish, find_vacuum, unlink), in the order of their       *)
(* sequence numbers taken under the protecting lock, are replayed against  *)
(* the version-manager actions of Secondary.tla.  The guard of `unlink' IS *)
(* the property: a row-set directory is removed only if no pinned version  *)
(* still contains it.                                                      *)
(*                                                                         *)
(* Input: ndjson, one event per line, runs separated by `reset' events     *)
(* carrying the state at the start of the run:                             *)
(*   {"ev":"reset","epoch":e,"rowsets":[[t,r],..],"run":id}                *)
(***************************************************************************)
EXTENDS Naturals, Sequences, FiniteSets, TLC, Json, IOUtils

Evs == ndJsonDeserialize(IOEnv.TRACE)

VARIABLES l,        \* next event
          epoch,    \* current epoch
          snapRs,   \* epoch -> row-sets (function on the epochs seen)
          pend,     \* row-set changes of the commit being published
          pins,     \* epoch -> pin count
          delq,     \* epoch -> row-sets retired by that epoch
          bad       \* first event the specification does not allow (0 = none)

vars == <<l, epoch, snapRs, pend, pins, delq, bad>>

Put(f, k, v) == [x \in DOMAIN f \cup {k} |-> IF x = k THEN v ELSE f[x]]
Get(f, k, d) == IF k \in DOMAIN f THEN f[k] ELSE d
SetOf(q) == {q[i] : i \in DOMAIN q}

Init == l = 1 /\ epoch = 0 /\ snapRs = <<>> /\ pend = [add |-> {}, del |-> {}] /\ pins = <<>>
        /\ delq = <<>> /\ bad = 0

Ev == Evs[l]
Is(e) == l <= Len(Evs) /\ bad = 0 /\ Ev.ev = e

Reset ==
    /\ Is("reset")
    /\ epoch' = Ev.epoch
    /\ snapRs' = (Ev.epoch :> SetOf(Ev.rowsets))
    /\ pend' = [add |-> {}, del |-> {}] /\ pins' = <<>> /\ delq' = <<>>
    /\ UNCHANGED bad

\* Secondary!ScanPin / InsPin / DelPin / DropPin / CompVisit: a pin is always of the current epoch
Pin ==
    /\ Is("pin")
    /\ IF Ev.epoch = epoch
       THEN pins' = Put(pins, epoch, Get(pins, epoch, 0) + 1) /\ UNCHANGED bad
       ELSE bad' = l /\ UNCHANGED pins
    /\ UNCHANGED <<epoch, snapRs, pend, delq>>

Unpin ==
    /\ Is("unpin")
    /\ IF Get(pins, Ev.epoch, 0) > 0 /\ Get(pins, Ev.epoch, 0) - 1 = Ev.left
       THEN pins' = Put(pins, Ev.epoch, pins[Ev.epoch] - 1) /\ UNCHANGED bad
       ELSE bad' = l /\ UNCHANGED pins
    /\ UNCHANGED <<epoch, snapRs, pend, delq>>

AddRs ==
    /\ Is("op.add_rowset")
    /\ pend' = [pend EXCEPT !.add = @ \cup {<<Ev.table, Ev.rowset>>}]
    /\ UNCHANGED <<epoch, snapRs, pins, delq, bad>>

DelRs ==
    /\ Is("op.delete_rowset")
    /\ pend' = [pend EXCEPT !.del = @ \cup {<<Ev.table, Ev.rowset>>}]
    /\ UNCHANGED <<epoch, snapRs, pins, delq, bad>>

\* Secondary!Commit: the next epoch = current snapshot + additions - removals; removals are queued
Publish ==
    /\ Is("publish")
    /\ IF Ev.epoch = epoch + 1
       THEN /\ epoch' = epoch + 1
            /\ snapRs' = Put(snapRs, epoch + 1, (Get(snapRs, epoch, {}) \cup pend.add) \ pend.del)
            /\ delq' = IF pend.del = {} THEN delq ELSE Put(delq, epoch + 1, pend.del)
            /\ UNCHANGED bad
       ELSE bad' = l /\ UNCHANGED <<epoch, snapRs, delq>>
    /\ pend' = [add |-> {}, del |-> {}]
    /\ UNCHANGED pins

Pinned == {e \in DOMAIN pins : pins[e] > 0}

\* Secondary!VacUnlink.  THE PROPERTY: no pinned version contains the row-set.
Unlink ==
    /\ Is("unlink")
    /\ LET x == <<Ev.table, Ev.rowset>> IN
       IF \E e \in Pinned : x \in Get(snapRs, e, {})
       THEN bad' = l
       ELSE UNCHANGED bad
    /\ UNCHANGED <<epoch, snapRs, pend, pins, delq>>

\* everything else is not a version-manager step
Other ==
    /\ l <= Len(Evs) /\ bad = 0
    /\ Ev.ev \notin {"reset", "pin", "unpin", "op.add_rowset", "op.delete_rowset", "publish", "unlink"}
    /\ UNCHANGED <<epoch, snapRs, pend, pins, delq, bad>>

Next == (Reset \/ Pin \/ Unpin \/ AddRs \/ DelRs \/ Publish \/ Unlink \/ Other) /\ l' = l + 1

Spec == Init /\ [][Next]_vars

\* printed once, at the end: how far the trace was accepted
Done == (l > Len(Evs) \/ bad # 0) =>
          PrintT(<<"TRACE", Len(Evs), bad>>)
==============================================================================
