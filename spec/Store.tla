------------------------------- MODULE Store -------------------------------
(***************************************************************************)
(* C16(b): what INSERT may do with a value offered to a column.            *)
(* A value either arrives unchanged (converted losslessly to the declared  *)
(* type) or the statement fails; NOT NULL / PRIMARY KEY columns never      *)
(* receive NULL; nothing is silently replaced by something else.           *)
(*                                                                         *)
(* Values are abstract classes; the concrete literals per column type are  *)
(* a table of the harness (lib/typecheck.py).                              *)
(***************************************************************************)
EXTENDS Naturals, TLC, Json

Types  == {"smallint", "int", "bigint", "bool", "varchar"}
\* class of the offered value relative to the column type
Classes == {"null", "fits", "fits_min", "fits_max", "too_big", "too_small", "widens",
            "text_of_value", "text_garbage", "other_kind"}
\* how the row is offered to t(k int, v <type>):
\*   values          INSERT INTO t VALUES (k, v)
\*   listed          INSERT INTO t(k, v) VALUES (k, v)
\*   permuted        INSERT INTO t(v, k) VALUES (v, k)       -- column list in another order than the table
\*   select          INSERT INTO t SELECT k, v FROM src
\*   select_permuted INSERT INTO t(v, k) SELECT v, k FROM src
\*   subset          INSERT INTO t(k) VALUES (k)             -- v omitted: NULL is offered
\*   subset_other    INSERT INTO t(v) VALUES (v)             -- k omitted
Forms  == {"values", "listed", "permuted", "select", "select_permuted", "subset", "subset_other"}
\* the value offered to the *other* column k (nullable int): 1 or NULL; it must arrive unchanged and must not
\* influence what happens to v
KForms == {"values", "listed", "permuted"}

\* the set of outcomes the property allows: "same" (stored unchanged), "null", "err"
Allowed(cls, nullable) ==
    CASE cls = "null" -> IF nullable THEN {"null"} ELSE {"err"}
      [] cls \in {"fits", "fits_min", "fits_max", "widens"} -> {"same"}
      [] cls \in {"too_big", "too_small"} -> {"err"}
      \* an implicit cast may or may not exist; if it does it must be the lossless one
      \* ('7' -> 7, true -> 1, 1 -> true)
      [] cls \in {"text_of_value", "other_kind"} -> {"same", "err"}
      [] cls = "text_garbage" -> {"err"}

\* classes that make sense for a type
Applies(ty, cls) ==
    CASE cls \in {"too_big", "too_small", "fits_min", "fits_max"} -> ty \in {"smallint", "int", "bigint"}
      [] cls = "widens" -> ty \in {"int", "bigint"}
      [] cls \in {"text_of_value", "text_garbage"} -> ty # "varchar"
      [] cls = "other_kind" -> ty \in {"bool", "int"}
      [] OTHER -> TRUE

\* how the column says whether it takes NULL: nothing, NOT NULL, or PRIMARY KEY (which implies NOT NULL)
Decls == {"nullable", "not_null", "primary_key"}
Nullable(decl) == decl = "nullable"
DeclApplies(ty, decl) == decl = "primary_key" => ty \in {"smallint", "int", "bigint"}

VARIABLE done
Init == done = FALSE
Next == /\ ~done
        /\ \A ty \in Types, cls \in Classes, decl \in Decls, f \in Forms, knull \in BOOLEAN :
              (/\ Applies(ty, cls) /\ DeclApplies(ty, decl)
               /\ ~(f = "subset" /\ cls # "null")
               /\ (knull => f \in KForms)) =>
                 PrintT(<<"CASE", ToJson([ty |-> ty, cls |-> cls, nullable |-> Nullable(decl), decl |-> decl, form |-> f,
                                           knull |-> knull, allowed |-> Allowed(cls, Nullable(decl))])>>)
        /\ done' = TRUE
Spec == Init /\ [][Next]_done
==============================================================================
