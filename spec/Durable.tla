------------------------------- MODULE Durable -------------------------------
(***************************************************************************)
(* The durable side of RisingLight's "secondary" storage engine, one       *)
(* session: manifest, row-set directories, delete-vector files, id         *)
(* derivation, compaction, vacuum, process death and boot.                 *)
(*                                                                         *)
(* Every action is one persistence step of the code (a hook in /repo,      *)
(* label in parentheses).  Next to the implementation-shaped state the     *)
(* module carries the abstract database `adb' a user relies on; the        *)
(* properties C03, C04 and C07 compare the two.                            *)
(*                                                                         *)
(* `Dev' names behaviour of the code that is known to be wrong; with       *)
(* Dev = {} the module describes the design as it has to be.               *)
(***************************************************************************)
EXTENDS Naturals, Sequences, FiniteSets, SequencesExt, TLC, ManifestOps

CONSTANTS
    MaxStmts,    \* bound on the number of statements in a history
    MaxBoots,    \* bound on boots
    MaxRows,     \* bound on rows ever inserted
    CrashOn,     \* TRUE: the process may die at any step
    AllowViews,  \* TRUE: CREATE VIEW / CREATE INDEX statements occur
    Dev          \* subset of {"SharedIdCounter", ...}: deviations of the code

(***************************************************************************)
(* Small helpers on functions with a dynamic domain.                       *)
(***************************************************************************)
Put(f, k, v) == [x \in DOMAIN f \cup {k} |-> IF x = k THEN v ELSE f[x]]
Del(f, K)    == [x \in DOMAIN f \ K |-> f[x]]
MaxOf(S, d)  == IF S = {} THEN d ELSE CHOOSE x \in S : \A y \in S : y <= x

VARIABLES
    \* ------------------------------------------------------------ durable
    man,      \* committed manifest: sequence of operations (Begin/End implicit)
    torn,     \* TRUE: a partial, uncommitted transaction sits at the manifest's tail
    tmp,      \* manifest.tmp.json: "none" | "partial" | "full"
    dirs,     \* <<tid, rid>> -> [full : BOOLEAN, rows : set of rows]
    dvf,      \* <<tid, rid, did>> -> [full : BOOLEAN, rows : set of rows]
    \* ----------------------------------------------------------- volatile
    up,       \* the database is open
    cat,      \* name -> [k : "none"|"table"|"view", id : Nat]
    nextTid,  \* the catalog's id counter
    live,     \* row-sets of the current version: set of <<tid, rid>>
    ldv,      \* delete vectors of the current version: set of <<tid, rid, did>>
    nextRs, nextDv,
    pc,       \* program counter of the (single) running activity
    cur,      \* the statement / boot in flight
    \* ----------------------------------------------------------- abstract
    adb,      \* name -> [k : "none"|"table"|"view", rows : set of rows]
    pend,     \* abstract effect of a statement that was in flight when the process died
    \* -------------------------------------------------------- bookkeeping
    nrow, stmts, boots,
    dead,     \* boot failed: the store cannot be opened
    err,      \* a statement failed although the abstract database accepts it
    bad,      \* recovery produced a state that is neither `before' nor `after'
    kf        \* deviations that changed an outcome in this behaviour

dvars == <<man, torn, tmp, dirs, dvf>>
vvars == <<up, cat, nextTid, live, ldv, nextRs, nextDv, pc, cur>>
avars == <<adb, pend>>
bvars == <<nrow, stmts, boots, dead, err, bad, kf>>
vars  == <<dvars, vvars, avars, bvars>>

NoCur  == [k |-> "none"]
NoEff  == [k |-> "none"]
EmptyCat == [n \in Names |-> [k |-> "none", id |-> NoId, base |-> "-"]]
EmptyAdb == [n \in Names |-> [k |-> "none", rows |-> {}]]

(***************************************************************************)
(* What a user sees.                                                       *)
(***************************************************************************)
RowsOf(t) ==
    LET rs  == {x \in live : x[1] = t}
        del == UNION {dvf[d].rows : d \in {d \in ldv : d[1] = t /\ d \in DOMAIN dvf}}
    IN  UNION {IF x \in DOMAIN dirs THEN dirs[x].rows ELSE {} : x \in rs} \ del

\* Deletions are by offset in the code; a delete vector only hides rows of *its* row-set.
RowsOfExact(t) ==
    UNION { (IF x \in DOMAIN dirs THEN dirs[x].rows ELSE {})
              \ UNION {dvf[d].rows : d \in {d \in ldv : d[1] = t /\ d[2] = x[2] /\ d \in DOMAIN dvf}}
          : x \in {x \in live : x[1] = t} }

Visible == [n \in Names |->
              IF cat[n].k = "table" THEN [k |-> "table", rows |-> RowsOfExact(cat[n].id)]
              ELSE [k |-> cat[n].k, rows |-> {}]]

ApplyEff(db, e) ==
    CASE e.k = "none" -> db
      [] e.k = "ct"   -> [db EXCEPT ![e.n] = [k |-> "table", rows |-> {}]]
      [] e.k = "cv"   -> [db EXCEPT ![e.n] = [k |-> "view", rows |-> {}]]
      [] e.k = "dt"   -> [db EXCEPT ![e.n] = [k |-> "none", rows |-> {}]]
      [] e.k = "ins"  -> [db EXCEPT ![e.n].rows = @ \cup e.rows]
      [] e.k = "del"  -> [db EXCEPT ![e.n].rows = @ \ e.rows]

\* Views are not persisted: a reopened database has none.
DropViews(db) == [n \in Names |-> IF db[n].k = "view" THEN [k |-> "none", rows |-> {}] ELSE db[n]]

\* After replay every remembered row-set / DV must belong to a known table and open.
Openable(s) ==
    /\ s.ok
    /\ \A x \in s.rs : /\ \E n \in Names : s.ids[n] = x[1]
                       /\ x \in DOMAIN dirs /\ dirs[x].full
    /\ \A d \in s.dv : /\ \E n \in Names : s.ids[n] = d[1]
                       /\ d \in DOMAIN dvf /\ dvf[d].full

\* The compacted manifest written at boot: row-sets, DVs, then the table history.
Compacted(s) ==
    [i \in 1..Cardinality(s.rs) |-> LET x == SetToSeq(s.rs)[i] IN [o |-> "ARS", t |-> x[1], r |-> x[2]]]
    \o [i \in 1..Cardinality(s.dv) |-> LET d == SetToSeq(s.dv)[i] IN [o |-> "ADV", t |-> d[1], r |-> d[2], d |-> d[3]]]
    \o s.hist

(***************************************************************************)
(* Initial state: an empty directory, database not yet opened.             *)
(***************************************************************************)
Init ==
    /\ man = <<>> /\ torn = FALSE /\ tmp = "none"
    /\ dirs = <<>> /\ dvf = <<>>
    /\ up = FALSE /\ cat = EmptyCat /\ nextTid = 0 /\ live = {} /\ ldv = {}
    /\ nextRs = 0 /\ nextDv = 0 /\ pc = "down" /\ cur = NoCur
    /\ adb = EmptyAdb /\ pend = NoEff
    /\ nrow = 0 /\ stmts = 0 /\ boots = 0
    /\ dead = FALSE /\ err = FALSE /\ bad = FALSE /\ kf = {}

(***************************************************************************)
(* Statements.  `Begin' fixes what the statement is going to do from the   *)
(* state it sees (this is where the code allocates ids); the `File*'       *)
(* actions create its files one persistence step at a time; `Append*'      *)
(* writes the manifest transaction; `Publish' makes it visible (ack).      *)
(***************************************************************************)
Idle == up /\ pc = "idle" /\ ~dead

\* cur = [k, eff, txn, mk (dirs to create: seq of <<key, rows>>), dv (files to create), vac]
Begin(c) ==
    /\ cur' = c
    /\ pc' = "files"

CreateTable(n) ==
    /\ Idle /\ stmts < MaxStmts /\ cat[n].k = "none"
    /\ Begin([k |-> "ct", eff |-> [k |-> "ct", n |-> n], txn |-> <<[o |-> "CT", n |-> n]>>,
              mk |-> <<>>, dv |-> <<>>, vac |-> {}, n |-> n])
    /\ stmts' = stmts + 1
    /\ UNCHANGED <<dvars, up, cat, nextTid, live, ldv, nextRs, nextDv, avars, nrow, boots, dead, err, bad, kf>>

\* CREATE VIEW / CREATE INDEX: catalog only, nothing is logged.
\* The view selects from the table `m': that table can not be dropped while the view exists.
HasView(n) == \E w \in Names : cat[w].k = "view" /\ cat[w].base = n
CreateView(n, m) ==
    /\ AllowViews /\ Idle /\ stmts < MaxStmts /\ cat[n].k = "none"
    /\ cat[m].k = "table"
    /\ cat' = [cat EXCEPT ![n] = [k |-> "view", id |-> nextTid, base |-> m]]
    /\ nextTid' = IF "SharedIdCounter" \in Dev THEN nextTid + 1 ELSE nextTid
    /\ adb' = [adb EXCEPT ![n] = [k |-> "view", rows |-> {}]]
    /\ stmts' = stmts + 1
    /\ UNCHANGED <<dvars, up, live, ldv, nextRs, nextDv, pc, cur, pend, nrow, boots, dead, err, bad, kf>>

\* CREATE INDEX: takes an id from the same counter, occupies no table name, is not logged.
CreateIndex ==
    /\ AllowViews /\ Idle /\ stmts < MaxStmts
    /\ \E m \in Names : cat[m].k = "table"
    /\ nextTid' = IF "SharedIdCounter" \in Dev THEN nextTid + 1 ELSE nextTid
    /\ stmts' = stmts + 1
    /\ UNCHANGED <<dvars, up, cat, live, ldv, nextRs, nextDv, pc, cur, avars, nrow, boots, dead, err, bad, kf>>

\* CREATE FUNCTION: a catalog entry of its own kind; takes no id, occupies no table name, is not logged.
CreateFunction ==
    /\ AllowViews /\ Idle /\ stmts < MaxStmts
    /\ stmts' = stmts + 1
    /\ UNCHANGED <<dvars, up, cat, nextTid, live, ldv, nextRs, nextDv, pc, cur, avars, nrow, boots, dead, err, bad, kf>>

\* DROP TABLE of a table that a view selects from is refused: nothing changes.
DropRefused(n) ==
    /\ Idle /\ stmts < MaxStmts /\ cat[n].k = "table" /\ HasView(n)
    /\ stmts' = stmts + 1
    /\ UNCHANGED <<dvars, up, cat, nextTid, live, ldv, nextRs, nextDv, pc, cur, avars, nrow, boots, dead, err, bad, kf>>

DropTable(n) ==
    /\ Idle /\ stmts < MaxStmts /\ cat[n].k = "table" /\ ~HasView(n)
    /\ LET t   == cat[n].id
           rs  == {x \in live : x[1] = t}
           dv  == {d \in ldv : d[1] = t /\ <<d[1], d[2]>> \in rs}
           ops == <<[o |-> "DT", t |-> t]>>
                  \o [i \in 1..Cardinality(rs) |-> LET x == SetToSeq(rs)[i] IN [o |-> "DRS", t |-> x[1], r |-> x[2]]]
                  \o [i \in 1..Cardinality(dv) |-> LET d == SetToSeq(dv)[i] IN [o |-> "DDV", t |-> d[1], r |-> d[2], d |-> d[3]]]
       IN  Begin([k |-> "dt", eff |-> [k |-> "dt", n |-> n], txn |-> ops,
                  mk |-> <<>>, dv |-> <<>>, vac |-> rs, n |-> n])
    \* contrary to CREATE, the catalog is changed first (drop_table_inner)
    /\ cat' = [cat EXCEPT ![n] = [k |-> "none", id |-> NoId, base |-> "-"]]
    /\ stmts' = stmts + 1
    /\ UNCHANGED <<dvars, up, nextTid, live, ldv, nextRs, nextDv, avars, nrow, boots, dead, err, bad, kf>>

Insert(n, cnt) ==
    /\ Idle /\ stmts < MaxStmts /\ cat[n].k = "table" /\ nrow + cnt <= MaxRows
    /\ LET t    == cat[n].id
           rows == (nrow + 1)..(nrow + cnt)
           key  == <<t, nextRs>>
       IN  /\ Begin([k |-> "ins", eff |-> [k |-> "ins", n |-> n, rows |-> rows],
                     txn |-> <<[o |-> "ARS", t |-> t, r |-> nextRs]>>,
                     mk |-> <<<<key, rows>>>>, dv |-> <<>>, vac |-> {}, n |-> n])
           /\ nextRs' = nextRs + 1
           /\ nrow' = nrow + cnt
    /\ stmts' = stmts + 1
    /\ UNCHANGED <<dvars, up, cat, nextTid, live, ldv, nextDv, avars, boots, dead, err, bad, kf>>

\* DELETE FROM n WHERE <pred>; the predicate is given by the set of rows it matches.
Delete(n, S) ==
    /\ Idle /\ stmts < MaxStmts /\ cat[n].k = "table"
    /\ LET t     == cat[n].id
           hit   == RowsOfExact(t) \cap S
           rsHit == {x \in live : x[1] = t /\ x \in DOMAIN dirs /\ dirs[x].rows \cap hit # {}}
           q     == SetToSeq(rsHit)
           files == [i \in 1..Len(q) |-> <<<<t, q[i][2], nextDv + i - 1>>, dirs[q[i]].rows \cap hit>>]
       IN  /\ Begin([k |-> "del", eff |-> [k |-> "del", n |-> n, rows |-> adb[n].rows \cap S],
                     txn |-> [i \in 1..Len(q) |-> [o |-> "ADV", t |-> t, r |-> q[i][2], d |-> nextDv + i - 1]],
                     mk |-> <<>>, dv |-> files, vac |-> {}, n |-> n])
           /\ nextDv' = nextDv + Len(q)
    /\ stmts' = stmts + 1
    /\ UNCHANGED <<dvars, up, cat, nextTid, live, ldv, nextRs, avars, nrow, boots, dead, err, bad, kf>>

\* One compactor visit of table n (all live row-sets fit the target size here).
Compact(n) ==
    /\ Idle /\ cat[n].k = "table"
    /\ LET t    == cat[n].id
           rs   == {x \in live : x[1] = t}
           dv   == {d \in ldv : d[1] = t}
           rows == RowsOfExact(t)
           new  == <<t, nextRs>>
           q    == SetToSeq(rs)
           qd   == SetToSeq(dv)
       IN  /\ Cardinality(rs) >= 2
           /\ Begin([k |-> "cmp", eff |-> NoEff,
                     txn |-> (IF rows = {} THEN <<>> ELSE <<[o |-> "ARS", t |-> t, r |-> nextRs]>>)
                             \o [i \in 1..Len(q) |-> [o |-> "DRS", t |-> t, r |-> q[i][2]]]
                             \o [i \in 1..Len(qd) |-> [o |-> "DDV", t |-> t, r |-> qd[i][2], d |-> qd[i][3]]],
                     mk |-> IF rows = {} THEN <<>> ELSE <<<<new, rows>>>>,
                     dv |-> <<>>, vac |-> rs, n |-> n])
           /\ nextRs' = IF rows = {} THEN nextRs ELSE nextRs + 1
    /\ UNCHANGED <<dvars, up, cat, nextTid, live, ldv, nextDv, avars, nrow, stmts, boots, dead, err, bad, kf>>   \* not a client statement

(***************************************************************************)
(* Persistence steps of the statement in flight.                           *)
(***************************************************************************)
\* (rowset.mkdir.after) create_dir fails if the directory exists
Mkdir ==
    /\ pc = "files" /\ Len(cur.mk) > 0
    /\ LET key == cur.mk[1][1] IN
       IF key \in DOMAIN dirs
       THEN /\ err' = TRUE /\ pc' = "idle" /\ cur' = NoCur      \* AlreadyExists
            /\ UNCHANGED <<dirs>>
       ELSE /\ dirs' = Put(dirs, key, [full |-> FALSE, rows |-> {}])
            /\ pc' = "write" /\ UNCHANGED <<err, cur>>
    /\ UNCHANGED <<man, torn, tmp, dvf, up, cat, nextTid, live, ldv, nextRs, nextDv, avars,
                   nrow, stmts, boots, dead, bad, kf>>

\* (file.synced ... rowset.dir_synced) all column and index files written and synced
WriteFiles ==
    /\ pc = "write"
    /\ dirs' = Put(dirs, cur.mk[1][1], [full |-> TRUE, rows |-> cur.mk[1][2]])
    /\ cur' = [cur EXCEPT !.mk = Tail(@)]
    /\ pc' = "files"
    /\ UNCHANGED <<man, torn, tmp, dvf, up, cat, nextTid, live, ldv, nextRs, nextDv, avars, bvars>>

\* (dv.created) create_new fails if the file exists
DvCreate ==
    /\ pc = "files" /\ Len(cur.mk) = 0 /\ Len(cur.dv) > 0
    /\ LET key == cur.dv[1][1] IN
       IF key \in DOMAIN dvf
       THEN /\ err' = TRUE /\ pc' = "idle" /\ cur' = NoCur
            /\ UNCHANGED dvf
       ELSE /\ dvf' = Put(dvf, key, [full |-> FALSE, rows |-> {}])
            /\ pc' = "dvwrite" /\ UNCHANGED <<err, cur>>
    /\ UNCHANGED <<man, torn, tmp, dirs, up, cat, nextTid, live, ldv, nextRs, nextDv, avars,
                   nrow, stmts, boots, dead, bad, kf>>

\* (dv.synced)
DvWrite ==
    /\ pc = "dvwrite"
    /\ dvf' = Put(dvf, cur.dv[1][1], [full |-> TRUE, rows |-> cur.dv[1][2]])
    /\ cur' = [cur EXCEPT !.dv = Tail(@)]
    /\ pc' = "files"
    /\ UNCHANGED <<man, torn, tmp, dirs, up, cat, nextTid, live, ldv, nextRs, nextDv, avars, bvars>>

\* (manifest.append.before) the write of Begin ... End is in flight
AppendStart ==
    /\ pc = "files" /\ Len(cur.mk) = 0 /\ Len(cur.dv) = 0
    /\ torn' = TRUE
    /\ pc' = "append"
    /\ UNCHANGED <<man, tmp, dirs, dvf, up, cat, nextTid, live, ldv, nextRs, nextDv, cur, avars, bvars>>

\* (manifest.append.synced)
AppendEnd ==
    /\ pc = "append"
    /\ torn' = FALSE
    /\ man' = man \o cur.txn
    /\ pc' = "publish"
    /\ UNCHANGED <<tmp, dirs, dvf, up, cat, nextTid, live, ldv, nextRs, nextDv, cur, avars, bvars>>

ApplyOps(st, ops) ==
    LET RECURSIVE Go(_, _)
        Go(s, i) ==
          IF i > Len(ops) THEN s ELSE
          LET op == ops[i] IN
          Go(CASE op.o = "ARS" -> [s EXCEPT !.rs = @ \cup {<<op.t, op.r>>}]
               [] op.o = "DRS" -> [s EXCEPT !.rs = @ \ {<<op.t, op.r>>}]
               [] op.o = "ADV" -> [s EXCEPT !.dv = @ \cup {<<op.t, op.r, op.d>>}]
               [] op.o = "DDV" -> [s EXCEPT !.dv = @ \ {<<op.t, op.r, op.d>>}]
               [] OTHER -> s, i + 1)
    IN Go(st, 1)

\* (publish) the new version becomes current; the statement is acknowledged
Publish ==
    /\ pc = "publish"
    /\ LET s == ApplyOps([rs |-> live, dv |-> ldv], cur.txn) IN
       /\ live' = s.rs /\ ldv' = s.dv
    /\ IF cur.k = "ct"
       THEN /\ cat' = [cat EXCEPT ![cur.n] = [k |-> "table", id |-> nextTid, base |-> "-"]]
            /\ nextTid' = nextTid + 1
       ELSE UNCHANGED <<cat, nextTid>>
    /\ adb' = ApplyEff(adb, cur.eff)
    /\ pc' = IF cur.vac = {} THEN "idle" ELSE "vacuum"
    /\ cur' = IF cur.vac = {} THEN NoCur ELSE cur
    \* the id given to a new table differs from the one replay will derive for it
    /\ kf' = IF cur.k = "ct" /\ Replay(man).ok /\ Replay(man).ids[cur.n] # nextTid
             THEN kf \cup {"SharedIdCounter"} ELSE kf
    /\ UNCHANGED <<dvars, up, nextRs, nextDv, pend, nrow, stmts, boots, dead, err, bad>>

\* (vacuum.unlink.after) remove_dir_all of one replaced row-set; it may die half-way
Unlink(full) ==
    /\ pc = "vacuum"
    /\ \E x \in cur.vac :
         /\ dirs' = IF full \/ ~(x \in DOMAIN dirs) THEN Del(dirs, {x})
                    ELSE Put(dirs, x, [full |-> FALSE, rows |-> {}])
         /\ IF full
            THEN /\ cur' = IF cur.vac = {x} THEN NoCur ELSE [cur EXCEPT !.vac = @ \ {x}]
                 /\ pc' = IF cur.vac = {x} THEN "idle" ELSE "vacuum"
            ELSE UNCHANGED <<cur, pc>>
    /\ UNCHANGED <<man, torn, tmp, dvf, up, cat, nextTid, live, ldv, nextRs, nextDv, avars, bvars>>

(***************************************************************************)
(* Process death and clean shutdown.                                       *)
(***************************************************************************)
Volatile0 ==
    /\ up' = FALSE /\ cat' = EmptyCat /\ nextTid' = 0 /\ live' = {} /\ ldv' = {}
    /\ nextRs' = 0 /\ nextDv' = 0 /\ pc' = "down" /\ cur' = NoCur

InFlightEff ==
    IF pc \in {"files", "write", "dvwrite", "append", "publish"} THEN cur.eff ELSE NoEff

Crash ==
    /\ CrashOn /\ pc \notin {"down", "judge"} /\ ~dead
    /\ Volatile0
    \* a statement that had not been acknowledged may or may not survive
    /\ pend' = IF pc \in {"files", "write", "dvwrite", "append", "publish"} THEN cur.eff ELSE pend
    /\ UNCHANGED <<dvars, adb, bvars>>

\* SecondaryStorage::shutdown signals the compactor and joins it; the compactor looks at the signal only after
\* a pass over all tables, so every shutdown is preceded by the compactor visits that are due (the Compact
\* steps themselves are ordinary steps above)
CompactDue(n) == cat[n].k = "table" /\ Cardinality({x \in live : x[1] = cat[n].id}) >= 2
Shutdown ==
    /\ Idle
    /\ \A n \in Names : ~CompactDue(n)
    /\ Volatile0
    /\ UNCHANGED <<dvars, avars, bvars>>

(***************************************************************************)
(* Boot (SecondaryStorage::bootstrap), one persistence step per action.    *)
(***************************************************************************)
BootReplay ==
    /\ pc = "down" /\ ~dead /\ boots < MaxBoots
    /\ boots' = boots + 1
    /\ LET s == Replay(man) IN
       IF ~s.ok
       THEN /\ dead' = TRUE /\ UNCHANGED <<pc, cur>>
       ELSE /\ cur' = [k |-> "boot", s |-> s] /\ pc' = "boot.vac" /\ UNCHANGED dead
    /\ UNCHANGED <<dvars, up, cat, nextTid, live, ldv, nextRs, nextDv, avars, nrow, stmts, err, bad, kf>>

\* (boot.vacuum.after) unreferenced row-set directories are removed
BootVacDir ==
    /\ pc = "boot.vac"
    /\ \E x \in DOMAIN dirs \ cur.s.rs : dirs' = Del(dirs, {x})
    /\ UNCHANGED <<man, torn, tmp, dvf, vvars, avars, bvars>>

\* (boot.dvvacuum.after) unreferenced delete-vector files are removed
BootVacDv ==
    /\ pc = "boot.vac"
    /\ DOMAIN dirs \ cur.s.rs = {}
    /\ \E d \in DOMAIN dvf \ cur.s.dv : dvf' = Del(dvf, {d})
    /\ UNCHANGED <<man, torn, tmp, dirs, vvars, avars, bvars>>

\* (boot.opened_all) every remembered row-set and DV is opened
BootOpen ==
    /\ pc = "boot.vac"
    /\ DOMAIN dirs \ cur.s.rs = {} /\ DOMAIN dvf \ cur.s.dv = {}
    /\ IF Openable(cur.s)
       THEN pc' = "boot.tmp" /\ UNCHANGED <<dead, cur>>
       ELSE dead' = TRUE /\ pc' = "down" /\ cur' = NoCur
    /\ UNCHANGED <<dvars, up, cat, nextTid, live, ldv, nextRs, nextDv, avars, nrow, stmts, boots, err, bad, kf>>

\* (rewrite.tmp_created)
BootTmpStart ==
    /\ pc = "boot.tmp"
    /\ tmp' = "partial" /\ pc' = "boot.tmp2"
    /\ UNCHANGED <<man, torn, dirs, dvf, up, cat, nextTid, live, ldv, nextRs, nextDv, cur, avars, bvars>>

\* (rewrite.tmp_written)
BootTmpEnd ==
    /\ pc = "boot.tmp2"
    /\ tmp' = "full" /\ pc' = "boot.rename"
    /\ UNCHANGED <<man, torn, dirs, dvf, up, cat, nextTid, live, ldv, nextRs, nextDv, cur, avars, bvars>>

\* (rewrite.renamed) the compacted manifest atomically replaces the old one; then the
\* database is open.  This is where recovery is judged.
BootRename ==
    /\ pc = "boot.rename"
    /\ man' = Compacted(cur.s) /\ torn' = FALSE /\ tmp' = "none"
    /\ LET s == cur.s IN
       /\ cat' = [n \in Names |-> IF s.ids[n] # NoId THEN [k |-> "table", id |-> s.ids[n], base |-> "-"]
                                  ELSE [k |-> "none", id |-> NoId, base |-> "-"]]
       /\ nextTid' = s.next
       /\ live' = s.rs /\ ldv' = s.dv /\ nextRs' = s.nrs /\ nextDv' = s.ndv
    /\ up' = TRUE /\ pc' = "judge" /\ cur' = NoCur
    /\ UNCHANGED <<dirs, dvf, avars, bvars>>

\* Not a step of the code: compare what recovery produced with the abstract database.
Judge ==
    /\ pc = "judge"
    /\ LET before == DropViews(adb)
           after  == DropViews(ApplyEff(adb, pend))
       IN  /\ adb' = IF Visible = after THEN after ELSE before
           /\ bad' = (bad \/ (Visible # before /\ Visible # after))
    /\ pend' = NoEff
    /\ pc' = "idle"
    /\ UNCHANGED <<dvars, up, cat, nextTid, live, ldv, nextRs, nextDv, cur, nrow, stmts, boots, dead, err, kf>>

(***************************************************************************)
\* predicates of DELETE: key <= c, key = c
DelSets == {1..c : c \in 1..MaxRows} \cup {{c} : c \in 1..MaxRows}

Stmt ==
    \/ \E n \in Names : CreateTable(n) \/ DropTable(n) \/ DropRefused(n) \/ Compact(n)
    \/ \E n, m \in Names : CreateView(n, m)
    \/ CreateFunction
    \/ CreateIndex
    \/ \E n \in Names, c \in 1..2 : Insert(n, c)
    \/ \E n \in Names, S \in DelSets : Delete(n, S)

Step ==
    \/ Mkdir \/ WriteFiles \/ DvCreate \/ DvWrite \/ AppendStart \/ AppendEnd \/ Publish
    \/ Unlink(TRUE) \/ Unlink(FALSE)

Boot ==
    \/ BootReplay \/ BootVacDir \/ BootVacDv \/ BootOpen \/ BootTmpStart \/ BootTmpEnd
    \/ BootRename \/ Judge

Next == Stmt \/ Step \/ Boot \/ Crash \/ Shutdown

Spec == Init /\ [][Next]_vars

(***************************************************************************)
(* Properties.                                                             *)
(***************************************************************************)
\* C03 / C07: whenever the database is open and quiescent, what a user sees is exactly
\* the abstract database (no lost or resurrected row, compaction and reopen invisible).
Consistent == (up /\ pc = "idle") => Visible = adb

\* C03 / C04: the store can always be opened.
RecoverOk == ~dead

\* C04: recovery yields the acknowledged prefix with or without the statement in flight.
AtomicDurable == ~bad

\* C04 (post-boot usable) / C03: no statement the abstract database accepts fails.
NoSpuriousError == ~err

\* Ids are never re-issued while an object with that id is still on disk.
IdsFresh ==
    (up /\ pc = "idle") =>
        /\ \A x \in DOMAIN dirs : x \in live \/ x[2] < nextRs
        /\ \A x \in live : x[2] < nextRs
        /\ \A d \in ldv : d[3] < nextDv

\* A manifest never references files that are missing or incomplete.
ManifestSound ==
        LET s == Replay(man) IN
        s.ok => /\ \A x \in s.rs : x \in DOMAIN dirs /\ dirs[x].full
                /\ \A d \in s.dv : d \in DOMAIN dvf /\ dvf[d].full

\* The same, for the code as it is: every violation is attributable to a listed deviation.
Known == kf # {}
KConsistent      == Consistent \/ Known
KRecoverOk       == RecoverOk \/ Known
KAtomicDurable   == AtomicDurable \/ Known
KNoSpuriousError == NoSpuriousError \/ Known
==============================================================================
