------------------------------ MODULE BlocksMC ------------------------------
(* Behaviour generator for C18: every fault / read sequence of Blocks.tla up   *)
(* to MaxSteps, printed with the outcome the specification predicts per read.  *)
EXTENDS Blocks, Json

VARIABLE h
MCInit == Init /\ h = <<>>
MCNext ==
    \/ \E b \in Blocks : CorruptBlock(b) /\ h' = Append(h, [a |-> "corrupt", b |-> b])
    \/ CorruptIndex /\ h' = Append(h, [a |-> "corrupt_idx"])
    \/ Read /\ h' = Append(h, [a |-> "read", want |-> last'])
    \/ ReadOther /\ h' = Append(h, [a |-> "read_other", want |-> lastOther'])
    \/ Reopen /\ h' = Append(h, [a |-> "reopen", up |-> up'])
Emit == (steps' = MaxSteps) => PrintT(<<"SEQ", ToJson(h')>>)
MCSpec == MCInit /\ [][MCNext /\ Emit]_<<vars, h>>
MCView == vars
==============================================================================
