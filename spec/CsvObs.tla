------------------------------- MODULE CsvObs -------------------------------
(* Record validation for C20: for every recorded case  [id, rows, names,       *)
(* header, delim, quote, file (bytes written by COPY TO), back (rows read by   *)
(* COPY FROM)]  TLC prints whether the file is exactly what the writer of      *)
(* Csv.tla produces, whether the table read back equals the original (the      *)
(* property) and whether it equals the model's prediction with the recorded    *)
(* deviation (empty string read as NULL).                                      *)
EXTENDS Csv, Json, IOUtils

Recs == ndJsonDeserialize(IOEnv.OBS)
Range(q) == {q[i] : i \in DOMAIN q}
Count(q, x) == Cardinality({i \in DOMAIN q : q[i] = x})
BagEq(a, b) == Len(a) = Len(b) /\ \A x \in Range(a) \cup Range(b) : Count(a, x) = Count(b, x)

VARIABLE i
Init == i = 1
Next == /\ i <= Len(Recs)
        /\ LET r == Recs[i] IN
           PrintT(<<"CSV", r.id,
                    r.file = Write(r.rows, r.names, r.header, r.delim, r.quote),
                    BagEq(r.back, r.rows),
                    BagEq(r.back, RoundTrip(r.rows, r.header)),
                    \* which recorded deviations this case exercises
                    r.header /\ Len(r.rows) > 0,
                    \E a \in DOMAIN r.rows : \E b \in DOMAIN r.rows[a] : r.rows[a][b] = <<"s", <<>>>>>>)
        /\ i' = i + 1
Spec == Init /\ [][Next]_i
==============================================================================
