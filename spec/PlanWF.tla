------------------------------- MODULE PlanWF -------------------------------
(***************************************************************************)
(* C17: what the executor can run.  Plans are the optimizer's output as    *)
(* nested tuples <<op, arg, ...>> (the s-expression of planner::Expr);     *)
(* atoms are <<"@col", text>>, <<"@tab", text>>, <<"@c", text>>.           *)
(*                                                                         *)
(* Schema(p) is transcribed from planner/rules/schema.rs; Resolvable is    *)
(* the executor's resolve_column_index: an expression is evaluated against *)
(* its input by replacing every sub-expression that occurs in the input's  *)
(* schema by a column index; a bare column that does not occur is fatal.   *)
(***************************************************************************)
EXTENDS Naturals, Sequences, FiniteSets, TLC, Json, IOUtils

Range(q) == {q[i] : i \in DOMAIN q}
Args(n) == [i \in 1..(Len(n) - 1) |-> n[i + 1]]
IsAtom(n) == n[1] \in {"@col", "@tab", "@c"}

PlanOps == {"scan", "values", "proj", "filter", "order", "limit", "topn", "join", "hashjoin", "mergejoin",
            "agg", "hashagg", "sortagg", "window", "empty", "index_scan"}
\* operators the executor has no implementation for / that must have been rewritten away
Forbidden == {"apply", "in", "exists", "max1row"}
JoinTypes == {"inner", "left_outer", "right_outer", "full_outer", "semi", "anti"}

RECURSIVE Schema(_)
Schema(p) ==
    LET op == p[1] IN
    CASE op = "scan"   -> Args(p[3])                       \* (scan table (list cols) filter)
      [] op = "index_scan" -> Args(p[3])
      [] op = "values" -> IF Len(p) >= 2 THEN Args(p[2]) ELSE <<>>
      [] op = "proj"   -> Args(p[2])
      [] op \in {"filter", "order"} -> Schema(p[3])
      [] op = "limit"  -> Schema(p[4])
      [] op = "topn"   -> Schema(p[5])
      [] op = "join"   -> IF p[2][2] \in {"semi", "anti"} THEN Schema(p[4]) ELSE Schema(p[4]) \o Schema(p[5])
      [] op \in {"hashjoin", "mergejoin"} ->
                          IF p[2][2] \in {"semi", "anti"} THEN Schema(p[6]) ELSE Schema(p[6]) \o Schema(p[7])
      [] op = "agg"    -> Args(p[2])
      [] op \in {"hashagg", "sortagg"} -> Args(p[2]) \o Args(p[3])
      [] op = "window" -> Schema(p[3]) \o Args(p[2])
      [] op = "empty"  -> Schema(p[2])
      [] OTHER -> <<>>

RECURSIVE Resolvable(_, _)
Resolvable(e, S) ==
    \/ e \in Range(S)
    \/ /\ e[1] # "@col"
       /\ (IsAtom(e) \/ \A i \in 2..Len(e) : Resolvable(e[i], S))

\* aggregate calls are evaluated by the aggregation operators themselves: only their arguments
\* are resolved against the child
AggArgsResolvable(list, S) ==
    \A i \in 2..Len(list) :
        LET a == list[i] IN
        IF a[1] \in {"max", "min", "sum", "avg", "count", "count-distinct", "first", "last"}
        THEN Resolvable(a[2], S)
        ELSE IF a[1] \in {"rowcount", "row_number"} THEN TRUE ELSE Resolvable(a, S)

RECURSIVE NoForbidden(_)
NoForbidden(n) ==
    \/ IsAtom(n)
    \/ /\ n[1] \notin Forbidden \/ (n[1] = "in" /\ n[3][1] = "list")      \* `x IN (list)' is an expression
       /\ \A i \in 2..Len(n) : NoForbidden(n[i])

RECURSIVE WF(_)
WF(p) ==
    LET op == p[1] IN
    CASE op \in {"scan", "index_scan"} -> TRUE
      [] op = "values" -> TRUE
      [] op = "proj"   -> WF(p[3]) /\ Resolvable(p[2], Schema(p[3]))
      [] op = "filter" -> WF(p[3]) /\ Resolvable(p[2], Schema(p[3]))
      [] op = "order"  -> WF(p[3]) /\ Resolvable(p[2], Schema(p[3]))
      [] op = "limit"  -> WF(p[4])
      [] op = "topn"   -> WF(p[5]) /\ Resolvable(p[4], Schema(p[5]))
      [] op = "join"   -> /\ WF(p[4]) /\ WF(p[5]) /\ p[2][2] \in JoinTypes
                          /\ Resolvable(p[3], Schema(p[4]) \o Schema(p[5]))
      [] op \in {"hashjoin", "mergejoin"} ->
                          /\ WF(p[6]) /\ WF(p[7]) /\ p[2][2] \in JoinTypes
                          /\ Len(p[4]) = Len(p[5])                          \* as many left as right keys
                          /\ Resolvable(p[4], Schema(p[6])) /\ Resolvable(p[5], Schema(p[7]))
                          \* the executors assert a `true' residual (hash semi/anti join may carry one)
                          /\ \/ p[3] = <<"@c", "true">>
                             \/ /\ op = "hashjoin"
                                /\ p[2][2] \in {"semi", "anti"}
                                /\ Resolvable(p[3], Schema(p[6]) \o Schema(p[7]))
                          /\ (op = "mergejoin" => p[2][2] \notin {"semi", "anti"})
      [] op = "agg"    -> WF(p[3]) /\ AggArgsResolvable(p[2], Schema(p[3]))
      [] op \in {"hashagg", "sortagg"} ->
                          WF(p[4]) /\ Resolvable(p[2], Schema(p[4])) /\ AggArgsResolvable(p[3], Schema(p[4]))
      [] op = "window" -> WF(p[3])
      [] op = "empty"  -> TRUE
      [] OTHER -> FALSE

WellFormed(p) == NoForbidden(p) /\ WF(p)

\* the optimized plan keeps the number of output columns of the bound plan
SameArity(bound, opt) == Len(Schema(bound)) = Len(Schema(opt)) \/ bound[1] \notin PlanOps

Recs == ndJsonDeserialize(IOEnv.OBS)
VARIABLE i
Init == i = 1
Next == /\ i <= Len(Recs)
        /\ LET r == Recs[i] IN
           PrintT(<<"WF", r.id, NoForbidden(r.opt), IF NoForbidden(r.opt) THEN WF(r.opt) ELSE FALSE,
                    SameArity(r.bound, r.opt)>>)
        /\ i' = i + 1
Spec == Init /\ [][Next]_i
==============================================================================
