---------------------------- MODULE SecondaryObs ----------------------------
(* Validation of outcomes recorded from the implementation (one JSON record    *)
(* per replayed schedule or free-running run) against the definition of        *)
(* serial explainability in Serial.tla.                                        *)
(* Record: [id, names, init, prog, results, final, reopened] with              *)
(*   init/final/reopened : name -> [k, rows (array)]                            *)
(*   prog    : session -> array of [k, t, rows (array)]                         *)
(*   results : session -> array of [ok, cnt, rows (array)]                      *)
EXTENDS Serial, Json, IOUtils, TLC, SequencesExt

Recs == ndJsonDeserialize(IOEnv.OBS)

SetOf(q) == {q[i] : i \in DOMAIN q}
Db(d) == [n \in DOMAIN d |-> [k |-> d[n].k, rows |-> SetOf(d[n].rows)]]
Stmts(q) == [i \in DOMAIN q |-> [k |-> q[i].k, t |-> q[i].t, rows |-> SetOf(q[i].rows)]]
Outs(q) == [i \in DOMAIN q |-> [ok |-> q[i].ok, cnt |-> q[i].cnt, rows |-> SetOf(q[i].rows)]]

Serial(r) ==
    LET S == DOMAIN r.prog
        N == DOMAIN r.init
        P == [s \in S |-> Stmts(r.prog[s])]
        R == [s \in S |-> Outs(r.results[s])]
    IN  ExplainsG(N, S, P, R, Db(r.init), [s \in S |-> 0], Db(r.final))

\* explainable when overlapping DELETEs may double-count (finding F21), two or more acknowledged DELETEs on one table
SerialDD(r) ==
    LET S == DOMAIN r.prog
        N == DOMAIN r.init
        P == [s \in S |-> Stmts(r.prog[s])]
        R == [s \in S |-> Outs(r.results[s])]
    IN  ExplainsDD(N, S, P, R, Db(r.init), [s \in S |-> 0], Db(r.final))

Reopens(r) == r.reopened_ok /\ Db(r.reopened) = Db(r.final)

VARIABLE i
Init == i = 1
Next == /\ i <= Len(Recs)
        /\ PrintT(<<"VERDICT", Recs[i].id, Serial(Recs[i]), Reopens(Recs[i]), SerialDD(Recs[i])>>)
        /\ i' = i + 1
Spec == Init /\ [][Next]_i
==============================================================================
