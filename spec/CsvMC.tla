-------------------------------- MODULE CsvMC --------------------------------
(* M1 for C20: over all tables of at most 2 x 2 cells from a small alphabet    *)
(* the writer's output determines the table (no two tables give the same file) *)
(* and the round trip is the identity.                                         *)
EXTENDS Csv

Cells == {<<"n", 0>>, <<"i", 0>>, <<"i", -12>>, <<"s", <<>>>>, <<"s", <<97>>>>, <<"s", <<44>>>>, <<"s", <<34>>>>,
          <<"s", <<10>>>>, <<"s", <<97, 34, 44>>>>}
Rows1 == {<<c>> : c \in Cells}
Rows2 == {<<c, d>> : c \in Cells, d \in Cells}
Tables == {<<>>} \cup {<<r>> : r \in Rows1 \cup Rows2} \cup {<<r, q>> : r \in Rows2, q \in Rows2}

VARIABLE t
Init == t \in Tables
Next == UNCHANGED t
Spec == Init /\ [][Next]_t

RoundTripIsIdentity == Identity(t)
\* the writer never produces a quote-unbalanced or delimiter-ambiguous line: every record ends with LF
\* and the number of LFs outside quotes equals the number of rows
EndsWithLF == Len(t) = 0 \/ LET f == Write(t, <<>>, FALSE, 44, 34) IN f[Len(f)] = 10
==============================================================================
