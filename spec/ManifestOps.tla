---------------------------- MODULE ManifestOps ----------------------------
(***************************************************************************)
(* The manifest as a sequence of operations and its replay at boot, shared *)
(* by Durable (crash / reopen histories) and Secondary (concurrency).      *)
(*   [o |-> "CT", n |-> name]            CreateTable (the id is NOT logged)  *)
(*   [o |-> "DT", t |-> tid]             DropTable                          *)
(*   [o |-> "ARS"|"DRS", t, r]           Add / DeleteRowSet                 *)
(*   [o |-> "ADV"|"DDV", t, r, d]        Add / DeleteDV                     *)
(***************************************************************************)
EXTENDS Naturals, Sequences

CONSTANT Names     \* table / view names

NoId == 100

(***************************************************************************)
(* Manifest replay, as coded in SecondaryStorage::bootstrap.               *)
(* Table ids are NOT logged: they are re-derived by counting CreateTable   *)
(* records.                                                                *)
(***************************************************************************)
R0 == [ids |-> [n \in Names |-> NoId], next |-> 0, rs |-> {}, dv |-> {},
       nrs |-> 0, ndv |-> 0, ok |-> TRUE, hist |-> <<>>]

ReplayOp(s, op) ==
    IF ~s.ok THEN s ELSE
    CASE op.o = "CT" ->
           IF s.ids[op.n] # NoId THEN [s EXCEPT !.ok = FALSE]        \* Duplicated("table")
           ELSE [s EXCEPT !.ids[op.n] = s.next, !.next = s.next + 1,
                          !.hist = Append(s.hist, op)]
      [] op.o = "DT" ->
           IF \E n \in Names : s.ids[n] = op.t
           THEN LET n == CHOOSE n \in Names : s.ids[n] = op.t
                IN  [s EXCEPT !.ids[n] = NoId, !.hist = Append(s.hist, op)]
           ELSE [s EXCEPT !.ok = FALSE]                               \* NotFound("table")
      [] op.o = "ARS" -> [s EXCEPT !.rs = @ \cup {<<op.t, op.r>>},
                                   !.nrs = IF op.r + 1 > @ THEN op.r + 1 ELSE @]
      [] op.o = "DRS" -> [s EXCEPT !.rs = @ \ {<<op.t, op.r>>}]
      [] op.o = "ADV" -> [s EXCEPT !.dv = @ \cup {<<op.t, op.r, op.d>>},
                                   !.ndv = IF op.d + 1 > @ THEN op.d + 1 ELSE @]
      [] op.o = "DDV" -> [s EXCEPT !.dv = @ \ {<<op.t, op.r, op.d>>}]

RECURSIVE ReplayFrom(_, _, _)
ReplayFrom(s, m, i) == IF i > Len(m) THEN s ELSE ReplayFrom(ReplayOp(s, m[i]), m, i + 1)
Replay(m) == ReplayFrom(R0, m, 1)

==============================================================================
