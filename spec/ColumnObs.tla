------------------------------ MODULE ColumnObs ------------------------------
(* Record validation for C06: [id, vals, start, events] per line. *)
EXTENDS Column, Json, IOUtils
Recs == ndJsonDeserialize(IOEnv.OBS)
VARIABLE i
Init == i = 1
Next == /\ i <= Len(Recs)
        /\ LET r == Recs[i]
               v == Valid(r.vals, r.start, r.events)
           IN PrintT(<<"COL", r.id, v.ok, v.why, v.at>>)
        /\ i' = i + 1
Spec == Init /\ [][Next]_i
==============================================================================
