------------------------------- MODULE Column -------------------------------
(***************************************************************************)
(* C06: the contract of a stored column.  A column is a sequence of values *)
(* `a' cut into blocks; a reader is a position `pos':                      *)
(*   Seek(s)   pos := s                                                    *)
(*   Next(n)   returns (pos, a[pos+1 .. pos+k]) for some 1 <= k <= n (k is *)
(*             bounded by the block the position is in), pos := pos + k;   *)
(*             returns End iff pos = Len(a)                                *)
(*   Skip(k)   pos := pos + k                                              *)
(* Encodings (plain, run-length, dictionary, nullable or not, fixed or     *)
(* variable width) and the block size may only change where blocks end,    *)
(* never the values.                                                       *)
(*                                                                         *)
(* Valid(vals, start, events) decides whether a recorded read of a real    *)
(* column is a behaviour of this contract.                                 *)
(***************************************************************************)
EXTENDS Naturals, Sequences, FiniteSets, TLC

Slice(a, lo, n) == [i \in 1..n |-> a[lo + i]]

\* events: <<[op, n, row_id, vals]>>;  op: "next" | "skip" | "end"
RECURSIVE Replay(_, _, _, _)
Replay(a, pos, evs, i) ==
    IF i > Len(evs) THEN [ok |-> FALSE, why |-> "the read never reached the end of the column", at |-> i]
    ELSE LET e == evs[i] IN
         CASE e.op = "skip" ->
                IF pos + e.n > Len(a) THEN [ok |-> FALSE, why |-> "skip beyond the end", at |-> i]
                ELSE Replay(a, pos + e.n, evs, i + 1)
           [] e.op = "end" ->
                IF pos = Len(a) THEN [ok |-> TRUE, why |-> "", at |-> i]
                ELSE [ok |-> FALSE, why |-> "end of column reported before the last row", at |-> i]
           [] e.op = "next" ->
                LET k == Len(e.vals) IN
                IF e.row_id # pos THEN [ok |-> FALSE, why |-> "wrong row position reported", at |-> i]
                ELSE IF k = 0 THEN [ok |-> FALSE, why |-> "empty batch", at |-> i]
                ELSE IF e.n > 0 /\ k > e.n THEN [ok |-> FALSE, why |-> "more rows than requested", at |-> i]
                ELSE IF pos + k > Len(a) THEN [ok |-> FALSE, why |-> "rows beyond the end", at |-> i]
                ELSE IF e.vals # Slice(a, pos, k) THEN [ok |-> FALSE, why |-> "values differ from what was written", at |-> i]
                ELSE Replay(a, pos + k, evs, i + 1)
           [] OTHER -> [ok |-> FALSE, why |-> "read failed", at |-> i]

Valid(a, start, evs) == Replay(a, start, evs, 1)
==============================================================================
