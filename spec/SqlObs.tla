------------------------------- MODULE SqlObs -------------------------------
(* Validation of recorded query results against SqlSem: one JSON record per    *)
(* case  [id, db, q, obs]  where obs is a sequence of observed results (one    *)
(* per engine / optimizer configuration); for every case TLC prints the        *)
(* result SqlSem prescribes and whether each observation matches it.           *)
EXTENDS SqlSem, Json, IOUtils

Recs == ndJsonDeserialize(IOEnv.OBS)

VARIABLE i
Init == i = 1
Next == /\ i <= Len(Recs)
        /\ LET r == Recs[i] IN
           /\ PrintT(<<"E", r.id, ToJson(Q(r.q, <<>>, r.db))>>)
           /\ PrintT(<<"V", r.id, [j \in DOMAIN r.obs |-> Matches(r.q, r.db, r.obs[j])]>>)
        /\ i' = i + 1
Spec == Init /\ [][Next]_i
==============================================================================
