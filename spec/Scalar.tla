------------------------------- MODULE Scalar -------------------------------
(***************************************************************************)
(* C14, second half: the typed scalar reference with failures.             *)
(*                                                                         *)
(* SqlSem.tla gives the value of the total operators on small integers.    *)
(* This module adds what can FAIL or depends on the width of a type:       *)
(* integer arithmetic in SMALLINT (i16) and INT (i32) with overflow,       *)
(* casts between i16 / i32 / BOOLEAN / VARCHAR (range checks, parsing),    *)
(* unary minus, string functions.  A value is a SqlSem value or Err.       *)
(*                                                                         *)
(* Rules (for one row, independent of every other row):                    *)
(*   - an operand that fails makes the expression fail;                    *)
(*   - otherwise a NULL operand of a strict operator gives NULL -- without *)
(*     looking at anything else, in particular there is no overflow "under *)
(*     a NULL";                                                            *)
(*   - division / remainder by zero give NULL;                             *)
(*   - a result outside the type's range fails (never wraps);              *)
(*   - a cast that cannot represent its input fails.                       *)
(* A statement `SELECT id, e1..ek FROM t' fails iff some ei fails on some  *)
(* row, otherwise it returns exactly one row per input row.                *)
(*                                                                         *)
(* TLC integers are 32 bit: every check below is written so that no        *)
(* intermediate value leaves that range (no Abs(MIN), no a+b before the    *)
(* test).                                                                  *)
(***************************************************************************)
EXTENDS SqlSem

Err == <<"e", 0>>
IsErr(v) == v[1] = "e"

MaxOf(ty) == IF ty = "i16" THEN 32767 ELSE 2147483647
MinOf(ty) == -MaxOf(ty) - 1
InRange(ty, x) == x >= MinOf(ty) /\ x <= MaxOf(ty)

AddOv(ty, a, b) == (b > 0 /\ a > MaxOf(ty) - b) \/ (b < 0 /\ a < MinOf(ty) - b)
SubOv(ty, a, b) == (b < 0 /\ a > MaxOf(ty) + b) \/ (b > 0 /\ a < MinOf(ty) + b)
MulOv(ty, a, b) ==
    IF a = 0 \/ b = 0 THEN FALSE
    ELSE IF a = MinOf(ty) THEN b # 1
    ELSE IF b = MinOf(ty) THEN a # 1
    ELSE LET x == Abs(a)  y == Abs(b)  M == MaxOf(ty) IN
         IF (a < 0) = (b < 0) THEN x > M \div y
         ELSE \* the product may be M + 1 in magnitude: that is y a power of two and x = (M+1)/y
              x > M \div y /\ ~(M % y = y - 1 /\ x = (M \div y) + 1)

\* truncating division that never negates MIN (32 bit)
SDiv(a, b) ==
    LET MIN == MinOf("i32") IN
    IF b = MIN THEN (IF a = MIN THEN 1 ELSE 0)
    ELSE IF a = MIN THEN (IF b > 0 THEN (IF b = 1 THEN MIN ELSE TDiv(a + b, b) - 1) ELSE TDiv(a - b, b) + 1)
    ELSE TDiv(a, b)

Arith(op, ty, x, y) ==
    IF IsErr(x) \/ IsErr(y) THEN Err
    ELSE IF IsNull(x) \/ IsNull(y) THEN Null
    ELSE LET a == x[2]  b == y[2] IN
      CASE op = "+" -> IF AddOv(ty, a, b) THEN Err ELSE I(a + b)
        [] op = "-" -> IF SubOv(ty, a, b) THEN Err ELSE I(a - b)
        [] op = "*" -> IF MulOv(ty, a, b) THEN Err ELSE I(a * b)
        [] op = "/" -> IF b = 0 THEN Null
                       ELSE IF a = MinOf(ty) /\ b = -1 THEN Err ELSE I(SDiv(a, b))
        [] op = "%" -> IF b = 0 THEN Null
                       ELSE IF b = -1 THEN I(0) ELSE I(a - b * SDiv(a, b))

Neg(ty, x) == IF IsErr(x) THEN Err ELSE IF IsNull(x) THEN Null
              ELSE IF x[2] = MinOf(ty) THEN Err ELSE I(-x[2])

(***************************************************************************)
(* Text of an integer, integer of a text (Rust's str::parse: optional sign,*)
(* at least one digit, nothing else).                                      *)
(***************************************************************************)
RECURSIVE Digits(_)
Digits(n) == IF n < 10 THEN <<48 + n>> ELSE Digits(n \div 10) \o <<48 + (n % 10)>>
IntText(x) == IF x >= 0 THEN Digits(x)
              ELSE IF x = MinOf("i32") THEN <<45, 50, 49, 52, 55, 52, 56, 51, 54, 52, 56>>
              ELSE <<45>> \o Digits(-x)

IsDigit(c) == c >= 48 /\ c <= 57
RECURSIVE Num(_, _)
Num(ds, acc) == IF Len(ds) = 0 THEN acc ELSE Num(Tail(ds), acc * 10 + (ds[1] - 48))
MaxText == <<50, 49, 52, 55, 52, 56, 51, 54, 52, 55>>      \* "2147483647"
MinText == <<50, 49, 52, 55, 52, 56, 51, 54, 52, 56>>      \* "2147483648"
\* <<ok, value>>
ParseInt(s) ==
    LET neg == Len(s) > 0 /\ s[1] = 45
        ds  == IF Len(s) > 0 /\ (s[1] = 45 \/ s[1] = 43) THEN Tail(s) ELSE s
    IN IF Len(ds) = 0 \/ (\E k \in DOMAIN ds : ~IsDigit(ds[k])) \/ Len(ds) > 10 THEN <<FALSE, 0>>
       ELSE IF Len(ds) = 10 /\ ~neg /\ SeqLess(MaxText, ds) THEN <<FALSE, 0>>
       ELSE IF Len(ds) = 10 /\ neg /\ SeqLess(MinText, ds) THEN <<FALSE, 0>>
       ELSE IF Len(ds) = 10 /\ neg /\ ds = MinText THEN <<TRUE, MinOf("i32")>>
       ELSE <<TRUE, IF neg THEN -Num(ds, 0) ELSE Num(ds, 0)>>

TrueText  == <<116, 114, 117, 101>>
FalseText == <<102, 97, 108, 115, 101>>

\* cast of a value of type `from' to type `to' (types: "i16", "i32", "b", "s")
Cast(to, from, x) ==
    IF IsErr(x) THEN Err ELSE IF IsNull(x) THEN Null
    ELSE CASE to \in {"i16", "i32"} /\ from \in {"i16", "i32"} -> IF InRange(to, x[2]) THEN x ELSE Err
           [] to \in {"i16", "i32"} /\ from = "b" -> I(x[2])
           [] to \in {"i16", "i32"} /\ from = "s" ->
                 LET p == ParseInt(x[2]) IN IF p[1] /\ InRange(to, p[2]) THEN I(p[2]) ELSE Err
           [] to = "b" /\ from \in {"i16", "i32"} -> B(x[2] # 0)
           [] to = "b" /\ from = "s" -> IF x[2] = TrueText THEN B(TRUE) ELSE IF x[2] = FalseText THEN B(FALSE) ELSE Err
           [] to = "b" /\ from = "b" -> x
           [] to = "s" /\ from \in {"i16", "i32"} -> <<"s", IntText(x[2])>>
           [] to = "s" /\ from = "b" -> <<"s", IF x[2] = 1 THEN TrueText ELSE FalseText>>
           [] to = "s" /\ from = "s" -> x

(***************************************************************************)
(* String functions.                                                       *)
(***************************************************************************)
IsPrefix(p, s) == Len(p) <= Len(s) /\ SubSeq(s, 1, Len(p)) = p
RECURSIVE ReplaceAll(_, _, _)
ReplaceAll(s, from, to) ==         \* Rust's str::replace: non-overlapping, left to right; empty pattern: between chars
    IF Len(from) = 0 THEN
        IF Len(s) = 0 THEN to ELSE to \o <<s[1]>> \o ReplaceAll(Tail(s), from, to)
    ELSE IF Len(s) = 0 THEN <<>>
    ELSE IF IsPrefix(from, s) THEN to \o ReplaceAll(SubSeq(s, Len(from) + 1, Len(s)), from, to)
    ELSE <<s[1]>> \o ReplaceAll(Tail(s), from, to)
RECURSIVE Rep(_, _)
Rep(s, n) == IF n <= 0 THEN <<>> ELSE s \o Rep(s, n - 1)

Strict2(x, y, v) == IF IsErr(x) \/ IsErr(y) THEN Err ELSE IF IsNull(x) \/ IsNull(y) THEN Null ELSE v

(***************************************************************************)
(* Expressions (resolved: columns are positions in the row).               *)
(***************************************************************************)
RECURSIVE SEv(_, _)
SEv(e, row) ==
    CASE e[1] = "c" -> row[e[2]]
      [] e[1] = "k" -> e[2]
      [] e[1] = "ar" -> Arith(e[2], e[3], SEv(e[4], row), SEv(e[5], row))
      [] e[1] = "neg" -> Neg(e[2], SEv(e[3], row))
      [] e[1] = "cmp" -> LET x == SEv(e[3], row)  y == SEv(e[4], row) IN
                         IF IsErr(x) \/ IsErr(y) THEN Err ELSE Bin(e[2], x, y)
      [] e[1] = "isnull" -> LET x == SEv(e[2], row) IN IF IsErr(x) THEN Err ELSE B(IsNull(x))
      [] e[1] = "notnull" -> LET x == SEv(e[2], row) IN IF IsErr(x) THEN Err ELSE B(~IsNull(x))
      [] e[1] = "not" -> LET x == SEv(e[2], row) IN IF IsErr(x) THEN Err ELSE Not3(x)
      [] e[1] = "cast" -> Cast(e[2], e[3], SEv(e[4], row))
      [] e[1] = "cat" -> LET x == SEv(e[2], row)  y == SEv(e[3], row) IN Strict2(x, y, <<"s", x[2] \o y[2]>>)
      [] e[1] = "like" -> LET x == SEv(e[2], row) IN
                          IF IsErr(x) THEN Err ELSE IF IsNull(x) THEN Null ELSE B(LikeM(x[2], e[3]))
      [] e[1] = "replace" -> LET x == SEv(e[2], row) IN
                          IF IsErr(x) THEN Err ELSE IF IsNull(x) THEN Null
                          ELSE <<"s", ReplaceAll(x[2], e[3], e[4])>>
      [] e[1] = "repeat" -> LET x == SEv(e[2], row)  n == SEv(e[3], row) IN
                          Strict2(x, n, <<"s", Rep(x[2], n[2])>>)

\* sub-expressions of an expression (for the attribution of recorded findings)
RECURSIVE Subs(_)
Subs(e) ==
    {e} \cup
    CASE e[1] \in {"c", "k"} -> {}
      [] e[1] = "ar" -> Subs(e[4]) \cup Subs(e[5])
      [] e[1] = "neg" -> Subs(e[3])
      [] e[1] = "cmp" -> Subs(e[3]) \cup Subs(e[4])
      [] e[1] \in {"isnull", "notnull", "not", "like", "replace"} -> Subs(e[2])
      [] e[1] = "cast" -> Subs(e[4])
      [] e[1] \in {"cat", "repeat"} -> Subs(e[2]) \cup Subs(e[3])
\* some row makes an arithmetic sub-expression NULL (the kernels still compute on the raw slots there)
NullArith(exprs, rows) ==
    \E r \in DOMAIN rows : \E k \in DOMAIN exprs : \E e \in Subs(exprs[k]) :
        e[1] \in {"ar", "neg"} /\ IsNull(SEv(e, rows[r]))

\* the statement SELECT id, e1..ek FROM t: rows <<id, v1..vk>>, or failure
RowsOf(exprs, rows) == [r \in DOMAIN rows |-> <<rows[r][1]>> \o [k \in DOMAIN exprs |-> SEv(exprs[k], rows[r])]]
Fails(exprs, rows) == \E r \in DOMAIN rows : \E k \in DOMAIN exprs : IsErr(SEv(exprs[k], rows[r]))
==============================================================================
