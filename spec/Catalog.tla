------------------------------ MODULE Catalog ------------------------------
(***************************************************************************)
(* C17, catalog half: the life cycle of tables and views.                  *)
(*                                                                         *)
(* A view is a stored plan over other catalog objects; every statement     *)
(* that names the view is planned by building that plan again.  A          *)
(* statement is plannable only if every object the plan reaches still      *)
(* exists, so the catalog must keep the invariant NoDangling below; the    *)
(* property "planning never crashes the process" rests on it.              *)
(*                                                                         *)
(* State: kind[n] in {"none","table","view"}, deps[n] = the objects a view *)
(* selects from.  Each statement either succeeds and changes the catalog   *)
(* or is refused and changes nothing; which of the two is Ok(o).           *)
(*                                                                         *)
(* TLC visits every reachable catalog once (VIEW hides the path) and, in   *)
(* every catalog, every statement: one behaviour "path to the catalog,     *)
(* then the statement" is printed per transition and replayed on the real  *)
(* database (lib/catalogcheck.py): the statement must be accepted/refused  *)
(* as Ok says, and afterwards every name must be usable exactly as kind'   *)
(* says -- without a panic.                                                *)
(***************************************************************************)
EXTENDS Naturals, Sequences, FiniteSets, TLC, Json

CONSTANTS Names,   \* object names
          Dev      \* deviations: "DanglingDrop" (DROP ignores the views that select from the object)

VARIABLES kind, deps, path
vars == <<kind, deps, path>>

Exists(n) == kind[n] # "none"
Dependents(n) == {w \in Names : kind[w] = "view" /\ n \in deps[w]}
Srcs == {S \in SUBSET Names : Cardinality(S) \in {1, 2}}

Ops == [op : {"ct"}, n : Names]
       \cup [op : {"cv"}, n : Names, src : Srcs]
       \cup [op : {"drop"}, ns : (SUBSET Names) \ {{}}, ifx : BOOLEAN]
       \cup [op : {"sel", "ins", "del"}, n : Names]

Ok(o) ==
    CASE o.op = "ct"   -> ~Exists(o.n)
      [] o.op = "cv"   -> ~Exists(o.n) /\ \A m \in o.src : Exists(m)
      [] o.op = "drop" -> /\ o.ifx \/ \A m \in o.ns : Exists(m)
                          /\ "DanglingDrop" \in Dev \/ \A m \in o.ns : Dependents(m) \subseteq o.ns
      [] o.op = "sel"  -> Exists(o.n)
      [] o.op \in {"ins", "del"} -> kind[o.n] = "table"

KindAfter(o) ==
    CASE o.op = "ct"   -> [kind EXCEPT ![o.n] = "table"]
      [] o.op = "cv"   -> [kind EXCEPT ![o.n] = "view"]
      [] o.op = "drop" -> [n \in Names |-> IF n \in o.ns THEN "none" ELSE kind[n]]
      [] OTHER         -> kind
DepsAfter(o) ==
    CASE o.op = "cv"   -> [deps EXCEPT ![o.n] = o.src]
      [] o.op = "drop" -> [n \in Names |-> IF n \in o.ns THEN {} ELSE deps[n]]
      [] OTHER         -> deps

Init == kind = [n \in Names |-> "none"] /\ deps = [n \in Names |-> {}] /\ path = <<>>

Do(o) ==
    LET ok == Ok(o)
        k2 == IF ok THEN KindAfter(o) ELSE kind
    IN  /\ PrintT(<<"B", ToJson([path |-> path, op |-> o, ok |-> ok, after |-> k2])>>)
        /\ kind' = k2
        /\ deps' = IF ok THEN DepsAfter(o) ELSE deps
        /\ path' = IF ok /\ o.op \in {"ct", "cv", "drop"} THEN Append(path, o) ELSE path

Next == \E o \in Ops : Do(o)
Spec == Init /\ [][Next]_vars
View == <<kind, deps>>

(***************************************************************************)
(* Invariants.                                                             *)
(***************************************************************************)
TypeOK == /\ kind \in [Names -> {"none", "table", "view"}]
          /\ deps \in [Names -> SUBSET Names]
\* a view never selects from an object that no longer exists
NoDangling == \A w \in Names : kind[w] = "view" => \A m \in deps[w] : Exists(m)
\* only views have sources; a view never selects from itself, directly or through other views
RECURSIVE Reach(_, _)
Reach(S, k) == IF k = 0 THEN S ELSE Reach(S \cup UNION {deps[m] : m \in S}, k - 1)
Acyclic == \A w \in Names : /\ kind[w] # "view" => deps[w] = {}
                            /\ kind[w] = "view" => w \notin Reach(deps[w], Cardinality(Names))
==============================================================================
