----------------------------- MODULE SecondaryMC -----------------------------
(* TLC-only wrapper of Secondary: a history of (action, actor) pairs, hidden   *)
(* from the fingerprint by VIEW, makes TLC's search a generator of schedules.  *)
(* Every transition into a quiescent state prints the schedule that led there *)
(* together with the outcome the specification predicts for it.                *)
EXTENDS Secondary, Json

CONSTANT EmitActs     \* actions after which the schedule so far is printed (besides quiescence)

VARIABLE h

T(a, s) == [a |-> a, s |-> s]
NameOfTid(t) == IF \E n \in Names : cat[n].id = t THEN CHOOSE n \in Names : cat[n].id = t ELSE "?"

\* (operators with explicit arguments: TLC evaluates the primed arguments once)
ReopenOkR(r, d) ==
    /\ r.ok
    /\ \A x \in r.rs : (\E n \in Names : r.ids[n] = x[1]) /\ x \in d
    /\ \A y \in r.dv : \E n \in Names : r.ids[n] = y[1]
ReopenOkG(m, d) == ReopenOkR(Replay(m), d)

MCInit == Init /\ h = <<>>

MCNext ==
    \/ \E s \in Sessions :
         \/ Bind(s)        /\ h' = Append(h, T("Bind", s))
         \/ Start(s)       /\ h' = Append(h, T("Start", s))
         \/ ScanPin(s)     /\ h' = Append(h, T("ScanPin", s))
         \/ ScanRead(s)    /\ h' = Append(h, T("ScanRead", s))
         \/ ReadOpen(s)    /\ h' = Append(h, T("ReadOpen", s))
         \/ ReadBatch(s)   /\ h' = Append(h, T("ReadBatch", s))
         \/ ReadClose(s)   /\ h' = Append(h, T("ReadClose", s))
         \/ InsPin(s)      /\ h' = Append(h, T("InsPin", s))
         \/ InsCommitA(s)  /\ h' = Append(h, T("InsCommitA", s))
         \/ InsCommit(s)   /\ h' = Append(h, T("InsCommit", s))
         \/ InsFinish(s)   /\ h' = Append(h, T("InsFinish", s))
         \/ DelPin(s)      /\ h' = Append(h, T("DelPin", s))
         \/ DelLock(s)     /\ h' = Append(h, T("DelLock", s))
         \/ DelPrep(s)     /\ h' = Append(h, T("DelPrep", s))
         \/ DelCommitA(s)  /\ h' = Append(h, T("DelCommitA", s))
         \/ DelCommit(s)   /\ h' = Append(h, T("DelCommit", s))
         \/ DelFinish(s)   /\ h' = Append(h, T("DelFinish", s))
         \/ CreateApply(s) /\ h' = Append(h, T("CreateApply", s))
         \/ DropPin(s)     /\ h' = Append(h, T("DropPin", s))
         \/ DropCommit(s)  /\ h' = Append(h, T("DropCommit", s))
    \/ CompWake    /\ h' = Append(h, [a |-> "CompWake", s |-> "compactor",
                                      order |-> [i \in 1..Len(comp'.todo) |-> NameOfTid(comp'.todo[i])]])
    \/ CompVisit   /\ h' = Append(h, T("CompVisit", "compactor"))
    \/ CompCommitA /\ h' = Append(h, T("CompCommitA", "compactor"))
    \/ CompCommit  /\ h' = Append(h, T("CompCommit", "compactor"))
    \/ CompRelease /\ h' = Append(h, T("CompRelease", "compactor"))
    \/ CompSleep   /\ h' = Append(h, T("CompSleep", "compactor"))
    \/ VacFind     /\ h' = Append(h, T("VacFind", "vacuum"))
    \/ VacUnlink   /\ h' = Append(h, T("VacUnlink", "vacuum"))

Emit == ((Quiescent' /\ ~Quiescent) \/ h'[Len(h')].a \in EmitActs) =>
          PrintT(<<"SCHED", ToJson([sched |-> h', results |-> results', final |-> FinalDb',
                                    kf |-> kf', fail |-> fail', complete |-> Quiescent',
                                    reopen_ok |-> ReopenOkG(man', dirs')])>>)

MCSpec == MCInit /\ [][MCNext /\ Emit]_<<vars, h>>
MCView == vars
==============================================================================
