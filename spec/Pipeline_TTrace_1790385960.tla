---- MODULE Pipeline_TTrace_1790385960 ----
EXTENDS Sequences, TLCExt, Toolbox, Naturals, TLC, Pipeline

_expression ==
    LET Pipeline_TEExpression == INSTANCE Pipeline_TEExpression
    IN Pipeline_TEExpression!expression
----

_trace ==
    LET Pipeline_TETrace == INSTANCE Pipeline_TETrace
    IN Pipeline_TETrace!trace
----

_inv ==
    ~(
        TLCGet("level") = Len(_TETrace)
        /\
        result = ("ok")
        /\
        fired = (TRUE)
        /\
        st = (<<"failed", "done", "done">>)
        /\
        closed = (<<TRUE, TRUE, TRUE>>)
        /\
        chan = (<<<<>>, <<>>, <<>>>>)
        /\
        sent = (<<3, 3, 3>>)
        /\
        got = (<<4, 3, 3>>)
        /\
        out = (<<"c", "c", "c">>)
    )
----

_init ==
    /\ result = _TETrace[1].result
    /\ out = _TETrace[1].out
    /\ st = _TETrace[1].st
    /\ closed = _TETrace[1].closed
    /\ sent = _TETrace[1].sent
    /\ got = _TETrace[1].got
    /\ fired = _TETrace[1].fired
    /\ chan = _TETrace[1].chan
----

_next ==
    /\ \E i,j \in DOMAIN _TETrace:
        /\ \/ /\ j = i + 1
              /\ i = TLCGet("level")
        /\ result  = _TETrace[i].result
        /\ result' = _TETrace[j].result
        /\ out  = _TETrace[i].out
        /\ out' = _TETrace[j].out
        /\ st  = _TETrace[i].st
        /\ st' = _TETrace[j].st
        /\ closed  = _TETrace[i].closed
        /\ closed' = _TETrace[j].closed
        /\ sent  = _TETrace[i].sent
        /\ sent' = _TETrace[j].sent
        /\ got  = _TETrace[i].got
        /\ got' = _TETrace[j].got
        /\ fired  = _TETrace[i].fired
        /\ fired' = _TETrace[j].fired
        /\ chan  = _TETrace[i].chan
        /\ chan' = _TETrace[j].chan

\* Uncomment the ASSUME below to write the states of the error trace
\* to the given file in Json format. Note that you can pass any tuple
\* to `JsonSerialize`. For example, a sub-sequence of _TETrace.
    \* ASSUME
    \*     LET J == INSTANCE Json
    \*         IN J!JsonSerialize("Pipeline_TTrace_1790385960.json", _TETrace)

=============================================================================

 Note that you can extract this module `Pipeline_TEExpression`
  to a dedicated file to reuse `expression` (the module in the 
  dedicated `Pipeline_TEExpression.tla` file takes precedence 
  over the module `Pipeline_TEExpression` below).

---- MODULE Pipeline_TEExpression ----
EXTENDS Sequences, TLCExt, Toolbox, Naturals, TLC, Pipeline

expression == 
    [
        \* To hide variables of the `Pipeline` spec from the error trace,
        \* remove the variables below.  The trace will be written in the order
        \* of the fields of this record.
        result |-> result
        ,out |-> out
        ,st |-> st
        ,closed |-> closed
        ,sent |-> sent
        ,got |-> got
        ,fired |-> fired
        ,chan |-> chan
        
        \* Put additional constant-, state-, and action-level expressions here:
        \* ,_stateNumber |-> _TEPosition
        \* ,_resultUnchanged |-> result = result'
        
        \* Format the `result` variable as Json value.
        \* ,_resultJson |->
        \*     LET J == INSTANCE Json
        \*     IN J!ToJson(result)
        
        \* Lastly, you may build expressions over arbitrary sets of states by
        \* leveraging the _TETrace operator.  For example, this is how to
        \* count the number of times a spec variable changed up to the current
        \* state in the trace.
        \* ,_resultModCount |->
        \*     LET F[s \in DOMAIN _TETrace] ==
        \*         IF s = 1 THEN 0
        \*         ELSE IF _TETrace[s].result # _TETrace[s-1].result
        \*             THEN 1 + F[s-1] ELSE F[s-1]
        \*     IN F[_TEPosition - 1]
    ]

=============================================================================



Parsing and semantic processing can take forever if the trace below is long.
 In this case, it is advised to uncomment the module below to deserialize the
 trace from a generated binary file.

\*
\*---- MODULE Pipeline_TETrace ----
\*EXTENDS IOUtils, TLC, Pipeline
\*
\*trace == IODeserialize("Pipeline_TTrace_1790385960.bin", TRUE)
\*
\*=============================================================================
\*

---- MODULE Pipeline_TETrace ----
EXTENDS TLC, Pipeline

trace == 
    <<
    ([result |-> "none",fired |-> FALSE,st |-> <<"run", "run", "run">>,closed |-> <<FALSE, FALSE, FALSE>>,chan |-> <<<<>>, <<>>, <<>>>>,sent |-> <<0, 0, 0>>,got |-> <<0, 0, 0>>,out |-> <<>>]),
    ([result |-> "none",fired |-> FALSE,st |-> <<"run", "run", "run">>,closed |-> <<FALSE, FALSE, FALSE>>,chan |-> <<<<"c">>, <<>>, <<>>>>,sent |-> <<1, 0, 0>>,got |-> <<1, 0, 0>>,out |-> <<>>]),
    ([result |-> "none",fired |-> FALSE,st |-> <<"run", "run", "run">>,closed |-> <<FALSE, FALSE, FALSE>>,chan |-> <<<<"c", "c">>, <<>>, <<>>>>,sent |-> <<2, 0, 0>>,got |-> <<2, 0, 0>>,out |-> <<>>]),
    ([result |-> "none",fired |-> FALSE,st |-> <<"run", "run", "run">>,closed |-> <<FALSE, FALSE, FALSE>>,chan |-> <<<<"c">>, <<"c">>, <<>>>>,sent |-> <<2, 1, 0>>,got |-> <<2, 1, 0>>,out |-> <<>>]),
    ([result |-> "none",fired |-> FALSE,st |-> <<"run", "run", "run">>,closed |-> <<FALSE, FALSE, FALSE>>,chan |-> <<<<"c", "c">>, <<"c">>, <<>>>>,sent |-> <<3, 1, 0>>,got |-> <<3, 1, 0>>,out |-> <<>>]),
    ([result |-> "none",fired |-> TRUE,st |-> <<"failing", "run", "run">>,closed |-> <<FALSE, FALSE, FALSE>>,chan |-> <<<<"c", "c">>, <<"c">>, <<>>>>,sent |-> <<3, 1, 0>>,got |-> <<4, 1, 0>>,out |-> <<>>]),
    ([result |-> "none",fired |-> TRUE,st |-> <<"failed", "run", "run">>,closed |-> <<TRUE, FALSE, FALSE>>,chan |-> <<<<"c", "c">>, <<"c">>, <<>>>>,sent |-> <<3, 1, 0>>,got |-> <<4, 1, 0>>,out |-> <<>>]),
    ([result |-> "none",fired |-> TRUE,st |-> <<"failed", "run", "run">>,closed |-> <<TRUE, FALSE, FALSE>>,chan |-> <<<<"c">>, <<"c", "c">>, <<>>>>,sent |-> <<3, 2, 0>>,got |-> <<4, 2, 0>>,out |-> <<>>]),
    ([result |-> "none",fired |-> TRUE,st |-> <<"failed", "run", "run">>,closed |-> <<TRUE, FALSE, FALSE>>,chan |-> <<<<"c">>, <<"c">>, <<"c">>>>,sent |-> <<3, 2, 1>>,got |-> <<4, 2, 1>>,out |-> <<>>]),
    ([result |-> "none",fired |-> TRUE,st |-> <<"failed", "run", "run">>,closed |-> <<TRUE, FALSE, FALSE>>,chan |-> <<<<>>, <<"c", "c">>, <<"c">>>>,sent |-> <<3, 3, 1>>,got |-> <<4, 3, 1>>,out |-> <<>>]),
    ([result |-> "none",fired |-> TRUE,st |-> <<"failed", "done", "run">>,closed |-> <<TRUE, TRUE, FALSE>>,chan |-> <<<<>>, <<"c", "c">>, <<"c">>>>,sent |-> <<3, 3, 1>>,got |-> <<4, 3, 1>>,out |-> <<>>]),
    ([result |-> "none",fired |-> TRUE,st |-> <<"failed", "done", "run">>,closed |-> <<TRUE, TRUE, FALSE>>,chan |-> <<<<>>, <<"c">>, <<"c", "c">>>>,sent |-> <<3, 3, 2>>,got |-> <<4, 3, 2>>,out |-> <<>>]),
    ([result |-> "none",fired |-> TRUE,st |-> <<"failed", "done", "run">>,closed |-> <<TRUE, TRUE, FALSE>>,chan |-> <<<<>>, <<"c">>, <<"c">>>>,sent |-> <<3, 3, 2>>,got |-> <<4, 3, 2>>,out |-> <<"c">>]),
    ([result |-> "none",fired |-> TRUE,st |-> <<"failed", "done", "run">>,closed |-> <<TRUE, TRUE, FALSE>>,chan |-> <<<<>>, <<>>, <<"c", "c">>>>,sent |-> <<3, 3, 3>>,got |-> <<4, 3, 3>>,out |-> <<"c">>]),
    ([result |-> "none",fired |-> TRUE,st |-> <<"failed", "done", "done">>,closed |-> <<TRUE, TRUE, TRUE>>,chan |-> <<<<>>, <<>>, <<"c", "c">>>>,sent |-> <<3, 3, 3>>,got |-> <<4, 3, 3>>,out |-> <<"c">>]),
    ([result |-> "none",fired |-> TRUE,st |-> <<"failed", "done", "done">>,closed |-> <<TRUE, TRUE, TRUE>>,chan |-> <<<<>>, <<>>, <<"c">>>>,sent |-> <<3, 3, 3>>,got |-> <<4, 3, 3>>,out |-> <<"c", "c">>]),
    ([result |-> "none",fired |-> TRUE,st |-> <<"failed", "done", "done">>,closed |-> <<TRUE, TRUE, TRUE>>,chan |-> <<<<>>, <<>>, <<>>>>,sent |-> <<3, 3, 3>>,got |-> <<4, 3, 3>>,out |-> <<"c", "c", "c">>]),
    ([result |-> "ok",fired |-> TRUE,st |-> <<"failed", "done", "done">>,closed |-> <<TRUE, TRUE, TRUE>>,chan |-> <<<<>>, <<>>, <<>>>>,sent |-> <<3, 3, 3>>,got |-> <<4, 3, 3>>,out |-> <<"c", "c", "c">>])
    >>
----


=============================================================================

---- CONFIG Pipeline_TTrace_1790385960 ----
CONSTANTS
    N = 3
    Chunks = 4
    Cap = 2
    FaultOp = 1
    FaultAt = 4
    FaultKind = "panic"
    Dev = { "PanicLooksLikeEof" }

INVARIANT
    _inv

CHECK_DEADLOCK
    \* CHECK_DEADLOCK off because of PROPERTY or INVARIANT above.
    FALSE

INIT
    _init

NEXT
    _next

CONSTANT
    _TETrace <- _trace

ALIAS
    _expression
=============================================================================
\* Generated on Sat Sep 26 01:26:00 UTC 2026