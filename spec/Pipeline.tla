------------------------------ MODULE Pipeline ------------------------------
(***************************************************************************)
(* C15: the executor as a pipeline of operator tasks.  Every plan node is  *)
(* a task that forwards its output chunks into a bounded broadcast channel *)
(* read by its parent; the root's channel is collected by Database::run.   *)
(* A fault (error value or panic) hits one task before it forwards one of  *)
(* its chunks.                                                             *)
(*                                                                         *)
(* Operators are a chain here (op 1 = leaf ... op N = root); `Need[o]' is  *)
(* how many input chunks operator o consumes before it is done producing   *)
(* (a LIMIT stops early, a blocking operator needs all).                   *)
(*                                                                         *)
(* A channel is closed when its sender is dropped; the end of the stream   *)
(* is "channel empty and closed" and takes no slot.  Deviations (Dev) are  *)
(* described at Report.                                                    *)
(***************************************************************************)
EXTENDS Naturals, Sequences, FiniteSets, TLC

CONSTANTS N,          \* operators
          Chunks,     \* chunks the leaf produces
          Cap,        \* channel capacity
          FaultOp, FaultAt, FaultKind,   \* the injected fault: operator, chunk index (1-based), "error" | "panic" | "none"
          Dev

Ops == 1..N

VARIABLES chan,      \* op -> sequence of items in its output channel: "c" chunk | "e" error
          closed,    \* op -> its sender is dropped: a reader that finds the channel empty sees the end of the stream
          sent,      \* op -> chunks forwarded so far
          got,       \* op -> input chunks consumed so far (op 1 reads the table)
          rcv,       \* op -> state of the receiving end of its channel: "inactive" (created, nobody listens: senders
                     \*       wait), "active" (the parent subscribed), "orig" (Dev DeactivateAfterSpawn only: the
                     \*       receiver created with the channel is still active)
          st,        \* op -> "run" | "failing" (caught a fault, has to report it) | "done" | "failed"
          out,       \* items the caller received from the root
          result,    \* "none" | "ok" | "err"
          fired

vars == <<chan, closed, rcv, sent, got, st, out, result, fired>>

Init == /\ chan = [o \in Ops |-> <<>>] /\ closed = [o \in Ops |-> FALSE]
        /\ rcv = [o \in Ops |-> IF "DeactivateAfterSpawn" \in Dev THEN "orig" ELSE "inactive"]
        /\ sent = [o \in Ops |-> 0] /\ got = [o \in Ops |-> 0]
        /\ st = [o \in Ops |-> "run"] /\ out = <<>> /\ result = "none" /\ fired = FALSE

\* an operator reads its input through its own subscription
HasItem(o)   == IF o = 1 THEN got[1] < Chunks ELSE rcv[o - 1] = "active" /\ Len(chan[o - 1]) > 0
InputItem(o) == IF o = 1 THEN "c" ELSE Head(chan[o - 1])
InputEof(o)  == IF o = 1 THEN got[1] = Chunks ELSE rcv[o - 1] = "active" /\ Len(chan[o - 1]) = 0 /\ closed[o - 1]
Pop(o, c)    == IF o = 1 THEN c ELSE [c EXCEPT ![o - 1] = Tail(@)]

Hit(o) == FaultKind # "none" /\ o = FaultOp /\ sent[o] + 1 = FaultAt
\* a send waits while nobody listens (async_broadcast with await_active)
Listening(o) == rcv[o] # "inactive"

\* operator o computes its next chunk from one input chunk and forwards it (the send waits for room);
\* the fault hits while the chunk is computed, i.e. whether or not there is room in the channel
Forward(o) ==
    /\ st[o] = "run" /\ HasItem(o) /\ InputItem(o) = "c"
    /\ IF Hit(o)
       THEN /\ st' = [st EXCEPT ![o] = "failing"] /\ fired' = TRUE
            /\ chan' = Pop(o, chan) /\ got' = [got EXCEPT ![o] = @ + 1]
            /\ UNCHANGED <<sent, closed, rcv>>
       ELSE /\ Len(chan[o]) < Cap /\ Listening(o)
            /\ chan' = [Pop(o, chan) EXCEPT ![o] = Append(@, "c")]
            /\ got' = [got EXCEPT ![o] = @ + 1] /\ sent' = [sent EXCEPT ![o] = @ + 1]
            /\ UNCHANGED <<st, fired, closed, rcv>>
    /\ UNCHANGED <<out, result>>

\* the task reports the fault to its reader and ends.  An error value is an ordinary stream item and
\* a caught panic is broadcast the same way (both wait for room).
\*   Dev "PanicLooksLikeEof": a panicking task just drops its sender (the defect repaired in spawn()).
\*   Dev "PanicTrySend":      the panic report is sent without waiting and lost when the channel is full.
Report(o) ==
    /\ st[o] = "failing"
    /\ LET lost == FaultKind = "panic" /\ ("PanicLooksLikeEof" \in Dev \/ ("PanicTrySend" \in Dev /\ Len(chan[o]) >= Cap))
       IN IF lost THEN UNCHANGED chan
          ELSE Len(chan[o]) < Cap /\ Listening(o) /\ chan' = [chan EXCEPT ![o] = Append(@, "e")]
    /\ st' = [st EXCEPT ![o] = "failed"] /\ closed' = [closed EXCEPT ![o] = TRUE]
    /\ UNCHANGED <<sent, got, out, result, fired, rcv>>

\* end of input: the task ends and drops its sender
Finish(o) ==
    /\ st[o] = "run" /\ InputEof(o)
    /\ st' = [st EXCEPT ![o] = "done"] /\ closed' = [closed EXCEPT ![o] = TRUE]
    /\ UNCHANGED <<chan, sent, got, out, result, fired, rcv>>

\* an error from below is passed on and ends the operator
Relay(o) ==
    /\ st[o] = "run" /\ o > 1 /\ HasItem(o) /\ InputItem(o) = "e" /\ Len(chan[o]) < Cap /\ Listening(o)
    /\ chan' = [Pop(o, chan) EXCEPT ![o] = Append(@, "e")]
    /\ st' = [st EXCEPT ![o] = "failed"] /\ closed' = [closed EXCEPT ![o] = TRUE]
    /\ UNCHANGED <<sent, got, out, result, fired, rcv>>

\* The parent (for the root: Database::run) subscribes to the channel while it builds its own executor; the
\* tasks below are already running then.
Subscribe(o) ==
    /\ rcv[o] = "inactive" /\ rcv' = [rcv EXCEPT ![o] = "active"]
    /\ UNCHANGED <<chan, closed, sent, got, st, out, result, fired>>
\* Dev "DeactivateAfterSpawn" (the defect repaired in spawn()): the channel is created with an active receiver
\* that is deactivated only after the task was spawned; what the task sent in between is dropped with it.
Deactivate(o) ==
    /\ rcv[o] = "orig" /\ rcv' = [rcv EXCEPT ![o] = "inactive"]
    /\ chan' = [chan EXCEPT ![o] = <<>>]
    /\ UNCHANGED <<closed, sent, got, st, out, result, fired>>

\* Database::run collects the root's stream
Collect ==
    /\ result = "none" /\ rcv[N] = "active"
    /\ \/ /\ Len(chan[N]) > 0
          /\ LET x == Head(chan[N]) IN
             /\ chan' = [chan EXCEPT ![N] = Tail(@)]
             /\ IF x = "c" THEN out' = Append(out, x) /\ UNCHANGED result
                ELSE result' = "err" /\ UNCHANGED out
       \/ /\ Len(chan[N]) = 0 /\ closed[N]
          /\ result' = "ok" /\ UNCHANGED <<chan, out>>
    /\ UNCHANGED <<sent, got, st, fired, closed, rcv>>

Next == (\E o \in Ops : Forward(o) \/ Report(o) \/ Finish(o) \/ Relay(o) \/ Subscribe(o) \/ Deactivate(o)) \/ Collect
Spec == Init /\ [][Next]_vars

\* C15: success is never reported for a run in which the fault fired
OkIsComplete == (result = "ok") => (~fired /\ Len(out) = Chunks)
\* every run ends with a verdict (no protocol deadlock): checked as "no terminal state without result"
Terminal == ~ENABLED Next
Decided  == Terminal => result # "none"
==============================================================================
