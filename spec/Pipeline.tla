------------------------------ MODULE Pipeline ------------------------------
(***************************************************************************)
(* C15: the executor as a pipeline of operator tasks.  Every plan node is  *)
(* a task that forwards its output chunks into a bounded broadcast channel *)
(* read by its parent; the root's channel is collected by Database::run.   *)
(* A fault (error value or panic) hits one task before it forwards one of  *)
(* its chunks.                                                             *)
(*                                                                         *)
(* Operators are a chain here (op 1 = leaf ... op N = root); `Need[o]' is  *)
(* how many input chunks operator o consumes before it is done producing   *)
(* (a LIMIT stops early, a blocking operator needs all).                   *)
(*                                                                         *)
(* Dev "PanicLooksLikeEof": a panicking task just drops its sender; the    *)
(* reader sees the end of the stream (the defect repaired in spawn()).     *)
(***************************************************************************)
EXTENDS Naturals, Sequences, FiniteSets, TLC

CONSTANTS N,          \* operators
          Chunks,     \* chunks the leaf produces
          Cap,        \* channel capacity
          FaultOp, FaultAt, FaultKind,   \* the injected fault: operator, chunk index (1-based), "error" | "panic" | "none"
          Dev

Ops == 1..N

VARIABLES chan,      \* op -> sequence of items in its output channel: "c" chunk | "e" error | "x" end of stream
          sent,      \* op -> chunks forwarded so far
          got,       \* op -> input chunks consumed so far (op 1 reads the table)
          st,        \* op -> "run" | "done" | "failed"
          out,       \* items the caller received from the root
          result,    \* "none" | "ok" | "err"
          fired

vars == <<chan, sent, got, st, out, result, fired>>

Init == /\ chan = [o \in Ops |-> <<>>] /\ sent = [o \in Ops |-> 0] /\ got = [o \in Ops |-> 0]
        /\ st = [o \in Ops |-> "run"] /\ out = <<>> /\ result = "none" /\ fired = FALSE

HasInput(o) == IF o = 1 THEN got[1] < Chunks ELSE Len(chan[o - 1]) > 0
InputItem(o) == IF o = 1 THEN "c" ELSE Head(chan[o - 1])
InputDone(o) == IF o = 1 THEN got[1] = Chunks ELSE FALSE

Hit(o) == FaultKind # "none" /\ o = FaultOp /\ sent[o] + 1 = FaultAt
\* what goes into the channel instead of the chunk when the fault hits
Item(o) == IF ~Hit(o) THEN "c"
           ELSE IF FaultKind = "error" THEN "e"
           ELSE IF "PanicLooksLikeEof" \in Dev THEN "x" ELSE "e"
Status(o) == IF Hit(o) THEN "failed" ELSE "run"

\* operator o forwards one chunk (streaming operators: one output chunk per input chunk)
Forward(o) ==
    /\ st[o] = "run" /\ Len(chan[o]) < Cap
    /\ \/ /\ HasInput(o) /\ InputItem(o) = "c"
          /\ got' = [got EXCEPT ![o] = @ + 1]
          /\ (IF o > 1 THEN chan' = [chan EXCEPT ![o - 1] = Tail(@), ![o] = Append(@, Item(o))]
              ELSE chan' = [chan EXCEPT ![o] = Append(@, Item(o))])
          /\ sent' = [sent EXCEPT ![o] = @ + 1]
          /\ st' = [st EXCEPT ![o] = Status(o)]
          /\ fired' = (fired \/ Hit(o))
       \* end of input: forward the end of stream
       \/ /\ (InputDone(o) \/ (o > 1 /\ HasInput(o) /\ InputItem(o) = "x"))
          /\ chan' = [chan EXCEPT ![o] = Append(@, "x")]
          /\ st' = [st EXCEPT ![o] = "done"]
          /\ UNCHANGED <<got, sent, fired>>
       \* an error from below is passed on and ends the operator
       \/ /\ o > 1 /\ HasInput(o) /\ InputItem(o) = "e"
          /\ chan' = [chan EXCEPT ![o] = Append(@, "e")]
          /\ st' = [st EXCEPT ![o] = "failed"]
          /\ UNCHANGED <<got, sent, fired>>
    /\ UNCHANGED <<out, result>>

\* Database::run collects the root's stream
Collect ==
    /\ result = "none" /\ Len(chan[N]) > 0
    /\ LET x == Head(chan[N]) IN
       /\ chan' = [chan EXCEPT ![N] = Tail(@)]
       /\ IF x = "c" THEN out' = Append(out, x) /\ UNCHANGED result
          ELSE IF x = "e" THEN result' = "err" /\ UNCHANGED out
          ELSE result' = "ok" /\ UNCHANGED out
    /\ UNCHANGED <<sent, got, st, fired>>

Next == (\E o \in Ops : Forward(o)) \/ Collect
Spec == Init /\ [][Next]_vars

\* C15: success is never reported for a run in which the fault fired
OkIsComplete == (result = "ok") => (~fired /\ Len(out) = Chunks)
==============================================================================
