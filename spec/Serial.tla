------------------------------- MODULE Serial -------------------------------
(***************************************************************************)
(* What "behaves like some serial order" means (C09, C10): the abstract    *)
(* database, the abstract effect and outcome of every statement kind, and  *)
(* the search for an order of the acknowledged statements, respecting each *)
(* session's own order, that explains every outcome and the final tables.  *)
(* Pure definitions: used by Secondary.tla on the model's own state and by *)
(* SecondaryObs.tla on outcomes recorded from the implementation.          *)
(***************************************************************************)
EXTENDS Naturals, Sequences, FiniteSets

\* abstract execution of one statement: new database and the outcome it must have had
AbsExec(db, st) ==
    CASE st.k = "ins" -> IF db[st.t].k = "table"
                         THEN [db |-> [db EXCEPT ![st.t].rows = @ \cup st.rows], ok |-> TRUE, cnt |-> Cardinality(st.rows), rows |-> {}]
                         ELSE [db |-> db, ok |-> FALSE, cnt |-> 0, rows |-> {}]
      [] st.k = "del" -> IF db[st.t].k = "table"
                         THEN [db |-> [db EXCEPT ![st.t].rows = @ \ st.rows], ok |-> TRUE,
                               cnt |-> Cardinality(db[st.t].rows \cap st.rows), rows |-> {}]
                         ELSE [db |-> db, ok |-> FALSE, cnt |-> 0, rows |-> {}]
      [] st.k \in {"sel", "rd"} ->
                         IF db[st.t].k = "table"
                         THEN [db |-> db, ok |-> TRUE, cnt |-> 0, rows |-> db[st.t].rows]
                         ELSE [db |-> db, ok |-> FALSE, cnt |-> 0, rows |-> {}]
      [] st.k = "ct"  -> IF db[st.t].k = "none"
                         THEN [db |-> [db EXCEPT ![st.t] = [k |-> "table", rows |-> {}]], ok |-> TRUE, cnt |-> 1, rows |-> {}]
                         ELSE [db |-> db, ok |-> FALSE, cnt |-> 0, rows |-> {}]
      [] st.k = "dt"  -> IF db[st.t].k = "table"
                         THEN [db |-> [db EXCEPT ![st.t] = [k |-> "none", rows |-> {}]], ok |-> TRUE, cnt |-> 1, rows |-> {}]
                         ELSE [db |-> db, ok |-> FALSE, cnt |-> 0, rows |-> {}]

\* does the outcome `r' recorded for statement `st' agree with the abstract outcome `a'?
\* A statement that failed must have had no effect; it may fail for reasons the abstract
\* database does not know (write conflict), so a failure is explained by "no effect" alone.
Agrees(st, r, a) ==
    IF ~r.ok THEN TRUE
    ELSE /\ a.ok
         /\ (st.k \in {"ins", "del", "ct", "dt"} => r.cnt = a.cnt)
         /\ (st.k \in {"sel", "rd"} => r.rows = a.rows)

\* The same with the deviation "DoubleDeleteCount" (finding F21): two DELETEs whose scans overlap both count a
\* row that only one of them removes.  `od' = the rows that acknowledged DELETEs of *other* sessions name on the
\* same table: an acknowledged DELETE may report those in addition to the rows it removes itself.
AgreesDD(st, r, a, od) ==
    IF ~r.ok THEN TRUE
    ELSE /\ a.ok
         /\ (st.k \in {"ins", "ct", "dt"} => r.cnt = a.cnt)
         /\ (st.k = "del" => r.cnt >= a.cnt /\ r.cnt <= a.cnt + Cardinality(st.rows \cap od))
         /\ (st.k \in {"sel", "rd"} => r.rows = a.rows)

\* N: table names, S: sessions, P: session -> statements, R: session -> outcomes (a prefix of P),
\* db: abstract database so far, pos: session -> number of statements already placed
RECURSIVE ExplainsG(_, _, _, _, _, _, _)
ExplainsG(N, S, P, R, db, pos, final) ==
    IF \A s \in S : pos[s] = Len(R[s])
    THEN \A n \in N : db[n].k = final[n].k /\ db[n].rows = final[n].rows
    ELSE \E s \in {x \in S : pos[x] < Len(R[x])} :
           LET st == P[s][pos[s] + 1]
               r  == R[s][pos[s] + 1]
               a  == AbsExec(db, st)
           IN  /\ Agrees(st, r, a)
               /\ ExplainsG(N, S, P, R, IF r.ok THEN a.db ELSE db, [pos EXCEPT ![s] = @ + 1], final)

OtherDeletes(S, P, R, s, t) ==
    UNION {UNION {P[x][j].rows : j \in {k \in DOMAIN R[x] : P[x][k].k = "del" /\ P[x][k].t = t /\ R[x][k].ok}}
           : x \in S \ {s}}

RECURSIVE ExplainsDD(_, _, _, _, _, _, _)
ExplainsDD(N, S, P, R, db, pos, final) ==
    IF \A s \in S : pos[s] = Len(R[s])
    THEN \A n \in N : db[n].k = final[n].k /\ db[n].rows = final[n].rows
    ELSE \E s \in {x \in S : pos[x] < Len(R[x])} :
           LET st == P[s][pos[s] + 1]
               r  == R[s][pos[s] + 1]
               a  == AbsExec(db, st)
           IN  /\ AgreesDD(st, r, a, OtherDeletes(S, P, R, s, st.t))
               /\ ExplainsDD(N, S, P, R, IF r.ok THEN a.db ELSE db, [pos EXCEPT ![s] = @ + 1], final)

==============================================================================
