----------------------------- MODULE ScalarObs ------------------------------
(* Validation of recorded statements `SELECT id, e1..ek FROM t' against      *)
(* Scalar.tla.  One JSON record per case:                                    *)
(*   [id, rows (each <<id, col values..>>), exprs, obs]                      *)
(* obs: sequence of [ok |-> 0|1, rows |-> ...] (one per engine / optimizer   *)
(* configuration).  TLC prints the prescribed outcome and one verdict per    *)
(* observation.                                                              *)
EXTENDS Scalar, Json, IOUtils

Recs == ndJsonDeserialize(IOEnv.OBS)

MatchObs(exprs, rows, o) ==
    IF Fails(exprs, rows) THEN o.ok = 0
    ELSE /\ o.ok = 1
         /\ BagEq(o.rows, RowsOf(exprs, rows))

\* the observed rows agree with the prescribed values on every row on which no expression fails
AgreeWhereDefined(exprs, rows, o) ==
    /\ o.ok = 1 /\ Len(o.rows) = Len(rows)
    /\ LET want == RowsOf(exprs, rows) IN
       \A j \in DOMAIN o.rows : \E r \in DOMAIN want :
           /\ want[r][1] = o.rows[j][1]
           /\ \A k \in DOMAIN want[r] : IsErr(want[r][k]) \/ want[r][k] = o.rows[j][k]

VARIABLE i
Init == i = 1
Next == /\ i <= Len(Recs)
        /\ LET r == Recs[i] IN
           /\ PrintT(<<"XE", r.id, ToJson([fails |-> Fails(r.exprs, r.rows), rows |-> RowsOf(r.exprs, r.rows)])>>)
           /\ PrintT(<<"XV", r.id, [j \in DOMAIN r.obs |-> MatchObs(r.exprs, r.rows, r.obs[j])]>>)
           /\ PrintT(<<"XW", r.id, [j \in DOMAIN r.obs |-> AgreeWhereDefined(r.exprs, r.rows, r.obs[j])],
                                    NullArith(r.exprs, r.rows)>>)
        /\ i' = i + 1
Spec == Init /\ [][Next]_i
==============================================================================
