---- MODULE Pipeline_TTrace_1790389776 ----
EXTENDS Sequences, TLCExt, Toolbox, Naturals, TLC, Pipeline

_expression ==
    LET Pipeline_TEExpression == INSTANCE Pipeline_TEExpression
    IN Pipeline_TEExpression!expression
----

_trace ==
    LET Pipeline_TETrace == INSTANCE Pipeline_TETrace
    IN Pipeline_TETrace!trace
----

_inv ==
    ~(
        TLCGet("level") = Len(_TETrace)
        /\
        fired = (TRUE)
        /\
        result = ("ok")
        /\
        st = (<<"failed", "done", "done">>)
        /\
        rcv = (<<"active", "active", "active">>)
        /\
        closed = (<<TRUE, TRUE, TRUE>>)
        /\
        chan = (<<<<>>, <<>>, <<>>>>)
        /\
        sent = (<<3, 3, 3>>)
        /\
        got = (<<4, 3, 3>>)
        /\
        out = (<<"c", "c", "c">>)
    )
----

_init ==
    /\ out = _TETrace[1].out
    /\ rcv = _TETrace[1].rcv
    /\ fired = _TETrace[1].fired
    /\ st = _TETrace[1].st
    /\ chan = _TETrace[1].chan
    /\ sent = _TETrace[1].sent
    /\ got = _TETrace[1].got
    /\ result = _TETrace[1].result
    /\ closed = _TETrace[1].closed
----

_next ==
    /\ \E i,j \in DOMAIN _TETrace:
        /\ \/ /\ j = i + 1
              /\ i = TLCGet("level")
        /\ out  = _TETrace[i].out
        /\ out' = _TETrace[j].out
        /\ rcv  = _TETrace[i].rcv
        /\ rcv' = _TETrace[j].rcv
        /\ fired  = _TETrace[i].fired
        /\ fired' = _TETrace[j].fired
        /\ st  = _TETrace[i].st
        /\ st' = _TETrace[j].st
        /\ chan  = _TETrace[i].chan
        /\ chan' = _TETrace[j].chan
        /\ sent  = _TETrace[i].sent
        /\ sent' = _TETrace[j].sent
        /\ got  = _TETrace[i].got
        /\ got' = _TETrace[j].got
        /\ result  = _TETrace[i].result
        /\ result' = _TETrace[j].result
        /\ closed  = _TETrace[i].closed
        /\ closed' = _TETrace[j].closed

\* Uncomment the ASSUME below to write the states of the error trace
\* to the given file in Json format. Note that you can pass any tuple
\* to `JsonSerialize`. For example, a sub-sequence of _TETrace.
    \* ASSUME
    \*     LET J == INSTANCE Json
    \*         IN J!JsonSerialize("Pipeline_TTrace_1790389776.json", _TETrace)

=============================================================================

 Note that you can extract this module `Pipeline_TEExpression`
  to a dedicated file to reuse `expression` (the module in the 
  dedicated `Pipeline_TEExpression.tla` file takes precedence 
  over the module `Pipeline_TEExpression` below).

---- MODULE Pipeline_TEExpression ----
EXTENDS Sequences, TLCExt, Toolbox, Naturals, TLC, Pipeline

expression == 
    [
        \* To hide variables of the `Pipeline` spec from the error trace,
        \* remove the variables below.  The trace will be written in the order
        \* of the fields of this record.
        out |-> out
        ,rcv |-> rcv
        ,fired |-> fired
        ,st |-> st
        ,chan |-> chan
        ,sent |-> sent
        ,got |-> got
        ,result |-> result
        ,closed |-> closed
        
        \* Put additional constant-, state-, and action-level expressions here:
        \* ,_stateNumber |-> _TEPosition
        \* ,_outUnchanged |-> out = out'
        
        \* Format the `out` variable as Json value.
        \* ,_outJson |->
        \*     LET J == INSTANCE Json
        \*     IN J!ToJson(out)
        
        \* Lastly, you may build expressions over arbitrary sets of states by
        \* leveraging the _TETrace operator.  For example, this is how to
        \* count the number of times a spec variable changed up to the current
        \* state in the trace.
        \* ,_outModCount |->
        \*     LET F[s \in DOMAIN _TETrace] ==
        \*         IF s = 1 THEN 0
        \*         ELSE IF _TETrace[s].out # _TETrace[s-1].out
        \*             THEN 1 + F[s-1] ELSE F[s-1]
        \*     IN F[_TEPosition - 1]
    ]

=============================================================================



Parsing and semantic processing can take forever if the trace below is long.
 In this case, it is advised to uncomment the module below to deserialize the
 trace from a generated binary file.

\*
\*---- MODULE Pipeline_TETrace ----
\*EXTENDS IOUtils, TLC, Pipeline
\*
\*trace == IODeserialize("Pipeline_TTrace_1790389776.bin", TRUE)
\*
\*=============================================================================
\*

---- MODULE Pipeline_TETrace ----
EXTENDS TLC, Pipeline

trace == 
    <<
    ([fired |-> FALSE,result |-> "none",st |-> <<"run", "run", "run">>,rcv |-> <<"inactive", "inactive", "inactive">>,closed |-> <<FALSE, FALSE, FALSE>>,chan |-> <<<<>>, <<>>, <<>>>>,sent |-> <<0, 0, 0>>,got |-> <<0, 0, 0>>,out |-> <<>>]),
    ([fired |-> FALSE,result |-> "none",st |-> <<"run", "run", "run">>,rcv |-> <<"active", "inactive", "inactive">>,closed |-> <<FALSE, FALSE, FALSE>>,chan |-> <<<<>>, <<>>, <<>>>>,sent |-> <<0, 0, 0>>,got |-> <<0, 0, 0>>,out |-> <<>>]),
    ([fired |-> FALSE,result |-> "none",st |-> <<"run", "run", "run">>,rcv |-> <<"active", "inactive", "inactive">>,closed |-> <<FALSE, FALSE, FALSE>>,chan |-> <<<<"c">>, <<>>, <<>>>>,sent |-> <<1, 0, 0>>,got |-> <<1, 0, 0>>,out |-> <<>>]),
    ([fired |-> FALSE,result |-> "none",st |-> <<"run", "run", "run">>,rcv |-> <<"active", "inactive", "inactive">>,closed |-> <<FALSE, FALSE, FALSE>>,chan |-> <<<<"c", "c">>, <<>>, <<>>>>,sent |-> <<2, 0, 0>>,got |-> <<2, 0, 0>>,out |-> <<>>]),
    ([fired |-> FALSE,result |-> "none",st |-> <<"run", "run", "run">>,rcv |-> <<"active", "active", "inactive">>,closed |-> <<FALSE, FALSE, FALSE>>,chan |-> <<<<"c", "c">>, <<>>, <<>>>>,sent |-> <<2, 0, 0>>,got |-> <<2, 0, 0>>,out |-> <<>>]),
    ([fired |-> FALSE,result |-> "none",st |-> <<"run", "run", "run">>,rcv |-> <<"active", "active", "inactive">>,closed |-> <<FALSE, FALSE, FALSE>>,chan |-> <<<<"c">>, <<"c">>, <<>>>>,sent |-> <<2, 1, 0>>,got |-> <<2, 1, 0>>,out |-> <<>>]),
    ([fired |-> FALSE,result |-> "none",st |-> <<"run", "run", "run">>,rcv |-> <<"active", "active", "inactive">>,closed |-> <<FALSE, FALSE, FALSE>>,chan |-> <<<<"c", "c">>, <<"c">>, <<>>>>,sent |-> <<3, 1, 0>>,got |-> <<3, 1, 0>>,out |-> <<>>]),
    ([fired |-> TRUE,result |-> "none",st |-> <<"failing", "run", "run">>,rcv |-> <<"active", "active", "inactive">>,closed |-> <<FALSE, FALSE, FALSE>>,chan |-> <<<<"c", "c">>, <<"c">>, <<>>>>,sent |-> <<3, 1, 0>>,got |-> <<4, 1, 0>>,out |-> <<>>]),
    ([fired |-> TRUE,result |-> "none",st |-> <<"failed", "run", "run">>,rcv |-> <<"active", "active", "inactive">>,closed |-> <<TRUE, FALSE, FALSE>>,chan |-> <<<<"c", "c">>, <<"c">>, <<>>>>,sent |-> <<3, 1, 0>>,got |-> <<4, 1, 0>>,out |-> <<>>]),
    ([fired |-> TRUE,result |-> "none",st |-> <<"failed", "run", "run">>,rcv |-> <<"active", "active", "inactive">>,closed |-> <<TRUE, FALSE, FALSE>>,chan |-> <<<<"c">>, <<"c", "c">>, <<>>>>,sent |-> <<3, 2, 0>>,got |-> <<4, 2, 0>>,out |-> <<>>]),
    ([fired |-> TRUE,result |-> "none",st |-> <<"failed", "run", "run">>,rcv |-> <<"active", "active", "active">>,closed |-> <<TRUE, FALSE, FALSE>>,chan |-> <<<<"c">>, <<"c", "c">>, <<>>>>,sent |-> <<3, 2, 0>>,got |-> <<4, 2, 0>>,out |-> <<>>]),
    ([fired |-> TRUE,result |-> "none",st |-> <<"failed", "run", "run">>,rcv |-> <<"active", "active", "active">>,closed |-> <<TRUE, FALSE, FALSE>>,chan |-> <<<<"c">>, <<"c">>, <<"c">>>>,sent |-> <<3, 2, 1>>,got |-> <<4, 2, 1>>,out |-> <<>>]),
    ([fired |-> TRUE,result |-> "none",st |-> <<"failed", "run", "run">>,rcv |-> <<"active", "active", "active">>,closed |-> <<TRUE, FALSE, FALSE>>,chan |-> <<<<>>, <<"c", "c">>, <<"c">>>>,sent |-> <<3, 3, 1>>,got |-> <<4, 3, 1>>,out |-> <<>>]),
    ([fired |-> TRUE,result |-> "none",st |-> <<"failed", "done", "run">>,rcv |-> <<"active", "active", "active">>,closed |-> <<TRUE, TRUE, FALSE>>,chan |-> <<<<>>, <<"c", "c">>, <<"c">>>>,sent |-> <<3, 3, 1>>,got |-> <<4, 3, 1>>,out |-> <<>>]),
    ([fired |-> TRUE,result |-> "none",st |-> <<"failed", "done", "run">>,rcv |-> <<"active", "active", "active">>,closed |-> <<TRUE, TRUE, FALSE>>,chan |-> <<<<>>, <<"c">>, <<"c", "c">>>>,sent |-> <<3, 3, 2>>,got |-> <<4, 3, 2>>,out |-> <<>>]),
    ([fired |-> TRUE,result |-> "none",st |-> <<"failed", "done", "run">>,rcv |-> <<"active", "active", "active">>,closed |-> <<TRUE, TRUE, FALSE>>,chan |-> <<<<>>, <<"c">>, <<"c">>>>,sent |-> <<3, 3, 2>>,got |-> <<4, 3, 2>>,out |-> <<"c">>]),
    ([fired |-> TRUE,result |-> "none",st |-> <<"failed", "done", "run">>,rcv |-> <<"active", "active", "active">>,closed |-> <<TRUE, TRUE, FALSE>>,chan |-> <<<<>>, <<>>, <<"c", "c">>>>,sent |-> <<3, 3, 3>>,got |-> <<4, 3, 3>>,out |-> <<"c">>]),
    ([fired |-> TRUE,result |-> "none",st |-> <<"failed", "done", "done">>,rcv |-> <<"active", "active", "active">>,closed |-> <<TRUE, TRUE, TRUE>>,chan |-> <<<<>>, <<>>, <<"c", "c">>>>,sent |-> <<3, 3, 3>>,got |-> <<4, 3, 3>>,out |-> <<"c">>]),
    ([fired |-> TRUE,result |-> "none",st |-> <<"failed", "done", "done">>,rcv |-> <<"active", "active", "active">>,closed |-> <<TRUE, TRUE, TRUE>>,chan |-> <<<<>>, <<>>, <<"c">>>>,sent |-> <<3, 3, 3>>,got |-> <<4, 3, 3>>,out |-> <<"c", "c">>]),
    ([fired |-> TRUE,result |-> "none",st |-> <<"failed", "done", "done">>,rcv |-> <<"active", "active", "active">>,closed |-> <<TRUE, TRUE, TRUE>>,chan |-> <<<<>>, <<>>, <<>>>>,sent |-> <<3, 3, 3>>,got |-> <<4, 3, 3>>,out |-> <<"c", "c", "c">>]),
    ([fired |-> TRUE,result |-> "ok",st |-> <<"failed", "done", "done">>,rcv |-> <<"active", "active", "active">>,closed |-> <<TRUE, TRUE, TRUE>>,chan |-> <<<<>>, <<>>, <<>>>>,sent |-> <<3, 3, 3>>,got |-> <<4, 3, 3>>,out |-> <<"c", "c", "c">>])
    >>
----


=============================================================================

---- CONFIG Pipeline_TTrace_1790389776 ----
CONSTANTS
    N = 3
    Chunks = 4
    Cap = 2
    FaultOp = 1
    FaultAt = 4
    FaultKind = "panic"
    Dev = { "PanicTrySend" }

INVARIANT
    _inv

CHECK_DEADLOCK
    \* CHECK_DEADLOCK off because of PROPERTY or INVARIANT above.
    FALSE

INIT
    _init

NEXT
    _next

CONSTANT
    _TETrace <- _trace

ALIAS
    _expression
=============================================================================
\* Generated on Sat Sep 26 02:29:37 UTC 2026