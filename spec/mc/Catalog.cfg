SPECIFICATION Spec
CONSTANTS
  Names = {"a", "b", "c"}
  Dev = {}
VIEW View
INVARIANTS TypeOK NoDangling Acyclic
CHECK_DEADLOCK FALSE
