SPECIFICATION Spec
CONSTANTS
  Names = {"A", "B"}
  Sessions = {"s1", "s2"}
  Prog <- MCProg
  InitRows <- MCInitRows
  MaxPasses = 1
  Dev = {}
INVARIANTS NoUnlinkWhilePinned NoFailure Serializable Reopenable Clean
CHECK_DEADLOCK FALSE
