SPECIFICATION Spec
CONSTANT Dev = {"EmptyIsNull", "HeaderNotWritten"}
CHECK_DEADLOCK FALSE
