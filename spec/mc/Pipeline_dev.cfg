SPECIFICATION Spec
CONSTANTS
  N = 3
  Chunks = 3
  Cap = 2
  FaultOp = 2
  FaultAt = 2
  FaultKind = "panic"
  Dev = {"PanicLooksLikeEof"}
INVARIANT OkIsComplete
CHECK_DEADLOCK FALSE
