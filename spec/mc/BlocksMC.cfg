SPECIFICATION MCSpec
CONSTANTS
  NB = 2
  MaxSteps = 5
  Dev = {}
VIEW MCView
CHECK_DEADLOCK FALSE
