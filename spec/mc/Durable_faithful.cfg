SPECIFICATION Spec
CONSTANTS
  Names = {"a", "b"}
  MaxStmts = 5
  MaxBoots = 2
  MaxRows = 3
  CrashOn = FALSE
  AllowViews = TRUE
  Dev = {"SharedIdCounter"}
INVARIANTS KConsistent KRecoverOk KAtomicDurable KNoSpuriousError
CHECK_DEADLOCK FALSE
