SPECIFICATION Spec
CONSTANTS
  Names = {"a", "b"}
  MaxStmts = 4
  MaxBoots = 2
  MaxRows = 3
  CrashOn = TRUE
  AllowViews = TRUE
  Dev = {}
INVARIANTS Consistent RecoverOk AtomicDurable NoSpuriousError IdsFresh ManifestSound
CHECK_DEADLOCK FALSE
