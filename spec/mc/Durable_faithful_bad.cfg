SPECIFICATION Spec
CONSTANTS
  Names = {"a", "b"}
  MaxStmts = 5
  MaxBoots = 2
  MaxRows = 3
  CrashOn = FALSE
  AllowViews = TRUE
  Dev = {"SharedIdCounter"}
INVARIANTS Consistent RecoverOk
CHECK_DEADLOCK FALSE
