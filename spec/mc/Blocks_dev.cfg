SPECIFICATION Spec
CONSTANTS
  NB = 2
  MaxSteps = 6
  Dev = {"CacheBeforeVerify"}
INVARIANT NeverAltered
CHECK_DEADLOCK FALSE
