SPECIFICATION Spec
CONSTANTS
  Names = {"a", "b", "c"}
  Dev = {"DanglingDrop"}
VIEW View
INVARIANTS TypeOK NoDangling Acyclic
CHECK_DEADLOCK FALSE
