SPECIFICATION Spec
CONSTANT Dev = {}
INVARIANTS RoundTripIsIdentity EndsWithLF
CHECK_DEADLOCK FALSE
