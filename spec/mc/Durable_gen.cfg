SPECIFICATION MCSpec
CONSTANTS
  Names = {"a", "b"}
  MaxStmts = 4
  MaxBoots = 2
  MaxRows = 3
  CrashOn = FALSE
  AllowViews = TRUE
  Dev = {"SharedIdCounter"}
VIEW MCView
CHECK_DEADLOCK FALSE
