SPECIFICATION MCSpec
CONSTANTS
  Names = {"A", "B"}
  Sessions = {"s1", "s2"}
  Prog <- MCProg
  InitRows <- MCInitRows
  MaxPasses = 1
  Dev = {}
  EmitActs = {"CompCommit", "DelCommit"}
VIEW MCView
CHECK_DEADLOCK FALSE
