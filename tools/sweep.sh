#!/bin/bash
# sweep.sh <seeds...>: every quick check with every given seed on the current tree; prints one line per run.
cd /verif
for sd in "$@"; do
  for i in 01 02 03 04 05 06 07 08 09 10 11 12 13 14 15 16 17 18 19 20; do
    t0=$(date +%s)
    out=$(VERIF_SEED=$sd ./check C$i --tier quick 2>&1); rc=$?
    nv=$(echo "$out" | grep -c "^VIOLATION")
    echo "C$i seed=$sd rc=$rc violations=$nv $(( $(date +%s) - t0 ))s $(echo "$out" | grep -m1 '^VIOLATION' -A1 | tail -1 | cut -c1-200)"
  done
done
