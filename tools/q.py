#!/usr/bin/env python3
"""q.py [-e mem|disk] file.sql — run ';'-separated statements through the harness, print results (explain as text)."""
import json, sys, os, subprocess, tempfile
sys.path.insert(0, os.path.join(os.path.dirname(os.path.abspath(__file__)), "..", "lib"))
import common
eng = "mem"
a = sys.argv[1:]
if a[0] == "-e":
    eng = a[1]; a = a[2:]
stmts = [s.strip() for s in open(a[0]).read().split(";") if s.strip()]
case = {"id": "q", "engine": eng, "opts": {"block": 4096, "rowset": 268435456}, "steps": [{"sql": s} for s in stmts]}
d = tempfile.mkdtemp(dir="/dev/shm")
open(d + "/in", "w").write(json.dumps(case) + "\n")
subprocess.run([common.VH, "sql", d + "/in", d + "/out"], stdout=subprocess.DEVNULL, stderr=subprocess.DEVNULL, timeout=120)
out = json.loads(open(d + "/out").read().splitlines()[0])
def dec(v):
    return None if v[0] == "n" else (bool(v[1]) if v[0] == "b" else (v[1] if v[0] in "ix" else "".join(chr(c) for c in v[1])))
for s, r in zip(stmts, out["res"]):
    print(">>", s)
    if not r["ok"]:
        print("   ERR", r.get("err"), "PANIC" if r.get("panic") else "")
    elif s.lower().startswith("explain"):
        for row in r["rows"]:
            print(dec(row[0]))
    else:
        for row in r["rows"]:
            print("  ", [dec(v) for v in row])
import shutil; shutil.rmtree(d)
