#!/bin/bash
# thorough.sh [ids...]: the thorough tier of every (or the given) check on the current tree, one line per run.
cd /verif
ids="$@"; [ -z "$ids" ] && ids="C01 C02 C03 C04 C05 C06 C07 C08 C09 C10 C11 C12 C13 C14 C15 C16 C17 C18 C19 C20"
for c in $ids; do
  t0=$(date +%s)
  out=$(VERIF_SEED=${VERIF_SEED:-1} ./check $c --tier thorough 2>&1); rc=$?
  echo "$c thorough rc=$rc violations=$(echo "$out" | grep -c '^VIOLATION') $(( $(date +%s) - t0 ))s $(echo "$out" | grep -m1 '^VIOLATION\|TOOL-ERROR' -A1 | tail -1 | cut -c1-250)"
done
