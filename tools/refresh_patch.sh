#!/bin/bash
# refresh_patch.sh <ID>: a seeded patch whose context went stale (a later fix: commit touched the same file) is applied
# with reduced context and re-recorded against the current tree.  /repo must be clean.
id=$1; p=/verif/seeded/$id/patch.diff
[ -n "$(git -C /repo status --short)" ] && { echo "/repo is not clean"; exit 2; }
git -C /repo apply $p 2>/dev/null && { git -C /repo checkout -- .; echo "$id applies as it is"; exit 0; }
git -C /repo apply -C1 --recount $p || { echo "$id: cannot be applied, rebase by hand"; git -C /repo checkout -- .; exit 1; }
git -C /repo diff -- src > $p.new && mv $p.new $p
git -C /repo checkout -- .
git -C /repo apply --check $p && echo "$id refreshed"
