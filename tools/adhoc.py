#!/usr/bin/env python3
"""adhoc.py <replay.json>  — rerun the (db, sql) of a SQL-level replay file on all configs and print the rows."""
import json, sys, os
sys.path.insert(0, os.path.join(os.path.dirname(os.path.abspath(__file__)), "..", "lib"))
import common, sqlcheck
d = json.load(open(sys.argv[1]))
c = d.get("case", d)
case = {"db": c["db"], "sql": c["sql"], "pk": c.get("pk", False)}
common.build()
runs, labels = sqlcheck.to_run_cases([case])
outs = common.run_sharded("sql", runs, shards=2, tag="adhoc")
for run, lab, out in zip(runs, labels, outs):
    for idx, l in lab:
        r = out["res"][idx]
        print(l, json.dumps(r.get("rows") if r["ok"] else r.get("err"))[:1500])
if "expected" in c:
    print("expected", json.dumps(c["expected"]))
