#!/usr/bin/env python3
"""save_mutant.py <ID> <meta.json fields as JSON on stdin> : copy /tmp/mut/<ID>/_deliver to /verif/seeded/<ID>/ and write meta.json"""
import json, os, shutil, sys
pid = sys.argv[1]
src, dst = f"/tmp/mut/{pid}/_deliver", f"/verif/seeded/{pid}"
os.makedirs(dst, exist_ok=True)
for f in os.listdir(src):
    shutil.copy(os.path.join(src, f), os.path.join(dst, f))
meta = json.load(sys.stdin)
meta = dict({"property": pid}, **meta)
json.dump(meta, open(os.path.join(dst, "meta.json"), "w"), indent=1)
print(os.listdir(dst))
