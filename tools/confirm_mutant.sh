#!/bin/bash
# confirm_mutant.sh <ID>: in the scratch worktree /tmp/mut/<ID> (change applied, deliverables in _deliver/):
# demo fails with the change, suite passes with the change, demo passes without it.
id=$1; w=/tmp/mut/$id; cd $w || exit 2
log=/tmp/mut/confirm_$id.log; : > $log
demo=$(ls _deliver/*.rs | head -1); name=$(basename $demo .rs)
git apply --check -R _deliver/patch.diff 2>>$log || { echo "patch not applied in worktree" >>$log; git apply _deliver/patch.diff 2>>$log; }
cp $demo tests/$name.rs
grep -q "name = \"$name\"" Cargo.toml || true
echo "== demo with change" >>$log
cargo test --offline --test $name >>$log 2>&1; echo "DEMO_WITH rc=$?" >>$log
rm tests/$name.rs
echo "== suite with change" >>$log
cargo test --workspace --no-fail-fast --offline 2>&1 | grep -E "^test result|FAILED|panicked" >>$log; echo "SUITE_WITH rc=${PIPESTATUS[0]}" >>$log
git apply -R _deliver/patch.diff
cp $demo tests/$name.rs
echo "== demo without change" >>$log
cargo test --offline --test $name >>$log 2>&1; echo "DEMO_WITHOUT rc=$?" >>$log
rm tests/$name.rs
git apply _deliver/patch.diff
grep -E "DEMO_WITH|SUITE_WITH|DEMO_WITHOUT" $log
