#!/bin/bash
# mutants_regress.sh: every seeded change under /verif/seeded is applied to /repo, its property's quick check is
# run, and the change is undone; prints one line per change.  /repo must be clean and nothing else may use it.
cd /verif
[ -n "$(git -C /repo status --short)" ] && { echo "/repo is not clean"; exit 2; }
for d in seeded/*/; do
  id=$(basename $d)
  prop=$(python3 -c "import json;print(json.load(open('$d/meta.json'))['property'])")
  git -C /repo apply /verif/$d/patch.diff || { echo "$id: patch does not apply"; continue; }
  n=$(./check $prop --tier quick 2>&1 | grep -c "^VIOLATION")
  git -C /repo checkout -- .
  echo "$id ($prop): $n violations $([ "$n" -gt 0 ] && echo DETECTED || echo MISSED)"
done
