"""C15: a failing statement reports an error, never a partial answer (Pipeline.tla)."""
import json, os, random, re, time
from common import *


def rows_sql(n, start=0):
    return ", ".join(f"({i}, {i % 7}, 'r{i % 5}')" for i in range(start, start + n))


def workload(seed, big):
    """(setup, statement, tables) triples: query shapes x operator kinds, inputs of several chunks."""
    base = ["create table t(a int, b int, c varchar)", "create table s(a int, b int)",
            f"insert into t values {rows_sql(1100)}", f"insert into t values {rows_sql(1100, 1100)}",
            "insert into s values " + ", ".join(f"({i}, {i * 2})" for i in range(0, 40))]
    pk = ["create table t(a int primary key, b int, c varchar)", "create table s(a int primary key, b int)",
          f"insert into t values {rows_sql(1100)}", f"insert into t values {rows_sql(1100, 1100)}",
          "insert into s values " + ", ".join(f"({i}, {i * 2})" for i in range(0, 40))]
    # a sparse side against a dense one (merge join on disk: whole runs of key groups without a partner)
    pk_sparse = ["create table t(a int primary key, b int, c varchar)", "create table s(a int primary key, b int)",
                 f"insert into t values {rows_sql(1100)}", f"insert into t values {rows_sql(1100, 1100)}",
                 "insert into s values " + ", ".join(f"({i * 100}, {i})" for i in range(0, 22))]
    stmts = [
        (pk_sparse, "select s.a, t.b from s join t on s.a = t.a"),
        (pk_sparse, "select s.a, t.b from s left join t on s.a = t.a"),
        (pk_sparse, "select t.a, s.b from t join s on t.a = s.a"),
        (base, "select a, b from t where b < 3"),
        (base, "select a + b, c from t order by a desc"),
        (base, "select a from t limit 5 offset 2"),
        (base, "select a from t order by b, a limit 7"),
        (base, "select b, count(*), sum(a) from t group by b"),
        (base, "select count(*), max(a) from t where c <> 'r1'"),
        (base, "select t.a, s.b from t join s on t.a = s.a"),
        (base, "select t.a, s.b from t left join s on t.a = s.a where t.a < 50"),
        (base, "select count(*) from t join s on t.a < s.a and t.b = 1"),
        (base, "select distinct b, c from t"),
        # semi / anti joins: hash (equality correlation) and nested loop (inequality correlation)
        (base, "select a from s where exists (select 1 from t where t.a = s.a)"),
        (base, "select a from s where not exists (select 1 from t where t.a = s.b)"),
        (base, "select a from s where exists (select 1 from t where t.a < s.a and t.b = 6)"),
        (base, "select a from s where not exists (select 1 from t where t.a > s.a + 2150)"),
        (base, "delete from s where not exists (select 1 from t where t.a > s.a + 2150)"),
        (base, "insert into s select a, b from t where b = 2"),
        (base, "delete from t where b = 3"),
        (base, "insert into t values (5001, 1, 'x'), (5002, 2, 'y')"),
        (pk, "select t.a, s.b from t join s on t.a = s.a"),
        (pk, "select b, count(*) from t group by b order by b"),
        (pk, "delete from t where a >= 1000 and a < 1300"),
    ]
    # a table of 40 chunks (one INSERT each): faults behind more queued chunks than the channel holds (16)
    many = ["create table m(a int, b int)", "create table s(a int, b int)", "create table t(a int)"] + \
           [f"insert into m values ({i}, {i % 3})" for i in range(40)] + \
           ["insert into s values " + ", ".join(f"({i}, {i * 2})" for i in range(0, 40))]
    stmts += [
        (many, "select a + 1 from m"),
        (many, "select m.a, s.b from s join m on s.a = m.a"),
        (many, "select m.a, s.b from m join s on s.a = m.a"),
        (many, "select count(*) from m join s on m.a < s.a"),
        (many, "insert into s select a, b from m where b < 2"),
    ]
    if big:
        stmts += [(base, "select a from t where exists (select 1 from s where s.a = t.b)"),
                  (base, "select c, min(a), count(distinct b) from t group by c having count(*) > 3"),
                  (pk, "select a, b from t where a > 100 and a <= 1200 order by a")]
    return stmts


def check_c15(args):
    t0 = time.time()
    seed, tier = seed_tier(args)
    build()
    v = Verdict("C15")
    big = tier == "thorough"
    # ---- M1: the pipeline protocol never reports success after a fault (every position and kind)
    mc_states = 0
    from durable import write_cfg

    def pipeline(fop, fat, kind, dev):
        cfg = write_cfg(f"Pipeline-{fop}-{fat}-{kind}-{len(dev)}",
                        "SPECIFICATION Spec\nCONSTANTS\n  N = 3\n  Chunks = 4\n  Cap = 2\n"
                        f"  FaultOp = {fop}\n  FaultAt = {fat}\n  FaultKind = \"{kind}\"\n  Dev = {dev}\n"
                        "INVARIANT OkIsComplete\nINVARIANT Decided\nCHECK_DEADLOCK FALSE\n")
        return tlc(os.path.join(SPEC, "Pipeline.tla"), cfg, workers=1, timeout=300)

    for fop in (1, 2, 3):
        for fat in (1, 2, 3, 4):
            for kind in ("error", "panic"):
                r = pipeline(fop, fat, kind, "{}")
                if not r["ok"]:
                    log(r["out"][-2000:])
                    raise ToolError("Pipeline.tla: model check failed")
                mc_states += r["distinct"]
    r = pipeline(1, 1, "none", "{}")            # no fault at all: the answer is complete under every schedule
    if not r["ok"]:
        log(r["out"][-2000:])
        raise ToolError("Pipeline.tla (no fault): model check failed")
    mc_states += r["distinct"]
    r = pipeline(1, 1, "none", '{"DeactivateAfterSpawn"}')
    if r["ok"] or "OkIsComplete is violated" not in r["out"]:
        raise ToolError("Pipeline.tla with Dev = {DeactivateAfterSpawn} is not rejected: the model is vacuous")
    # the model is not vacuous: each deviation (a panic that looks like the end of the stream; a panic report
    # that is dropped when the channel is full) is rejected
    for dev in ('{"PanicLooksLikeEof"}', '{"PanicTrySend"}'):
        r = pipeline(1, 4, "panic", dev)
        if r["ok"] or "OkIsComplete is violated" not in r["out"]:
            raise ToolError(f"Pipeline.tla with Dev = {dev} is not rejected: the model is vacuous")
    # ---- fault enumeration on the real operator pipelines
    cases = []
    for i, (setup, sql) in enumerate(workload(seed, big)):
        for eng in ("mem", "disk"):
            cases.append({"id": f"{i}.{eng}", "engine": eng, "opts": {"block": 4096}, "setup": setup, "sql": sql,
                          "tables": ["t", "s"], "max_points": 80 if big else (28 if setup[0].startswith("create table m") else 16)})
    outs = run_sharded("fault", cases, tag="c15", timeout=3300, case_timeout=600)
    runs, fired, nontriv = 0, 0, set()

    def key(rows):
        return sorted(json.dumps(r) for r in rows)

    for c, o in zip(cases, outs):
        if o.get("hang") or "fatal" in o:
            raise ToolError(f"fault case {c['id']}: {o}")
        dry = o["dry"]
        if not dry["ok"]:
            raise ToolError(f"fault-free run of `{c['sql']}` failed: {dry}")
        is_dml = c["sql"].startswith(("insert", "delete"))
        before = {t: key(r["rows"]) for t, r in o["before"].items()}
        after = {t: key(r["rows"]) for t, r in o["after"].items()}
        for run in o["runs"]:
            runs += 1
            if not run["fired"]:
                continue
            if is_dml and re.search(r"\.(insert|delete)$", run["op"]):
                # the only place a fault can be injected into the DML sink is its output (the row count),
                # i.e. after it committed: not a failure "at a point of its input stream"
                continue
            fired += 1
            res = run["result"]
            info = {"sql": c["sql"], "engine": c["engine"], "fault": {k: run[k] for k in ("op", "chunk", "kind")},
                    "result": {k: (v2 if k != "rows" else v2[:5]) for k, v2 in res.items()}}
            nontriv.add(json.dumps([c["sql"], run["op"], run["chunk"], run["kind"]]))
            tabs = {t: (key(r["rows"]) if r["ok"] else None) for t, r in run["tables"].items()}
            if res["ok"]:
                complete = key(res["rows"]) == key(dry["rows"]) and (not is_dml or tabs == after)
                if "limit" in c["sql"] and len(res["rows"]) == len(dry["rows"]) and not is_dml:
                    complete = True          # any rows of the right number are a full answer to an unordered LIMIT
                if not complete:
                    v.violation(info, f"[{c['engine']}] `{c['sql']}` reports success with "
                                      f"{len(res['rows'])} rows (complete answer: {len(dry['rows'])}) although operator "
                                      f"{run['op']} failed ({run['kind']}) at chunk {run['chunk']}")
                continue
            if res.get("panic"):
                v.violation(info, f"[{c['engine']}] `{c['sql']}`: the {run['kind']} in {run['op']} escapes Database::run as a panic")
                continue
            if is_dml and tabs != before:
                changed = [t for t in tabs if tabs[t] != before[t]]
                v.violation(dict(info, changed_tables=changed),
                            f"[{c['engine']}] `{c['sql']}` failed ({run['kind']} in {run['op']} at chunk {run['chunk']}) "
                            f"but table(s) {changed} changed")
    # ---- free-running schedules: the same pipelines on a multi-threaded runtime (no fault): every run returns the
    # complete answer (Pipeline.tla, FaultKind = "none"); statements are issued from the thread that drives the
    # runtime and from worker tasks, with and without a 200 us hold between spawning an operator task and handing
    # out its receiver (hook event spawn.spawned)
    many = ["create table m(a int, b int)"] + [f"insert into m values ({i}, {i % 3})" for i in range(40)] + \
           ["create table s(a int, b int)", "insert into s values " + ", ".join(f"({i}, {i * 2})" for i in range(0, 40))]
    shapes = [("select a + 1 from m", 40), ("select m.a, s.b from m join s on s.a = m.a", 40),
              ("select b, count(*), sum(a) from m group by b", 3), ("select a from m order by a desc limit 7", 7),
              ("select count(*) from m join s on m.a < s.a", 1)]
    mt_cases = []
    for eng in ("mem", "disk"):
        for sql, nrows in shapes:
            for par, stall in ((1, 0), (1, 200), (4, 0)):
                mt_cases.append({"id": f"mt{len(mt_cases)}", "engine": eng, "setup": many, "sql": sql,
                                 "runs": (400 if big else 40) if stall == 0 else (60 if big else 12),
                                 "workers": 8, "par": par, "stall_us": stall, "expect_rows": nrows})
    mt_outs = run_sharded("mt", mt_cases, shards=4, tag="c15mt", timeout=1800, case_timeout=300)
    mt_runs = 0
    for c, o in zip(mt_cases, mt_outs):
        info = {k: c[k] for k in ("engine", "sql", "par", "stall_us", "workers")}
        if o.get("hang"):
            v.violation(dict(info, result=o), f"[{c['engine']}] `{c['sql']}` on a multi-threaded runtime does not terminate")
            continue
        if "fatal" in o:
            v.violation(dict(info, result=o), f"[{c['engine']}] multi-threaded runtime: {o['fatal'][:200]}")
            continue
        mt_runs += o["runs"] + 1
        if not o["first_ok"] or o["first_rows"] != c["expect_rows"]:
            v.violation(dict(info, result=o), f"[{c['engine']}] `{c['sql']}` on a multi-threaded runtime returns "
                        f"{o['first_rows']} rows, the complete answer has {c['expect_rows']} (or the setup lost rows)")
        elif o["bad"]:
            v.violation(dict(info, result=o), f"[{c['engine']}] `{c['sql']}` on a multi-threaded runtime (issued from "
                        f"{'the driving thread' if c['par'] == 1 else 'worker tasks'}, hold {c['stall_us']} us): "
                        f"{len(o['bad'])} of {o['runs']} runs report success with an incomplete answer: {o['bad'][:3]}")
    rc = v.finish()
    write_evidence("C15", tier, seed, "fault_enumeration", {
        "free_running_multithreaded_runs": mt_runs,
        "evaluations": runs, "distinct_nontrivial": len(nontriv),
        "rule": "for each of the statement shapes (scan/filter/projection, ORDER BY, LIMIT, TopN, hash / nested-loop / "
                "merge join, hash / simple / sort aggregation, DISTINCT, INSERT..SELECT, INSERT VALUES, DELETE) over "
                "inputs of several chunks on both engines: a dry run records every (operator task, chunk index) the "
                "fault hook is asked about; then one run per selected point (first two, middle, last chunk of every "
                "operator) and fault kind (error value, panic) on a fresh database; non-trivial = runs in which the "
                "fault actually fired; M1: Pipeline.tla checked by TLC for every fault position and kind",
        "samples": [{"sql": cases[0]["sql"], "points": outs[0]["points"][:6]}],
        "faults_fired": fired, "model_states": mc_states, "known_findings_seen": sorted(v.seen_known)},
        ["faults are injected where an operator task forwards a chunk (the hook in Builder::spawn); failures inside "
         "storage I/O are not injected", "after a failed DML the tables are compared with their pre-statement content"],
        time.time() - t0, len(v.violations))
    return rc
