"""C14 (vectorised expression evaluation) and C16 (declared types and constraints)."""
import json, os, random, re, time
from common import *
import sqlgen as G
import sqlcheck as S

T14 = {"t1": [("id", G.INT), ("a", G.INT), ("b", G.INT), ("c", G.STR)]}
FEAT14 = dict(S.ENVELOPE, subq=(), mod="const", strcat=True, like=True, case=True, neg=True, const_pred=False, udf=False)


def expr_cases(seed, n):
    """Queries `select id, e1, e2, e3 from t1` over tables of 1 / 63 / 64 / 65 / 130 / 200 rows."""
    rnd = random.Random(seed)
    cases = []
    lens = [1, 63, 64, 65, 130, 200]
    for i in range(n):
        g = G.Gen(rnd, tables=T14, joins=False, feat=FEAT14)
        nrows = lens[i % len(lens)]
        rows = []
        # NULL density per column and table: none at all (the kernels' all-valid fast paths), sparse, half, all
        dens = [rnd.choice([0.0, 0.0, 0.15, 0.5, 1.0]) for _ in range(3)]
        pick = lambda d, pool: None if rnd.random() < d else rnd.choice(pool)
        for r in range(nrows):
            rows.append([r, pick(dens[0], [0, 1, 2, 3, -1, -3, 7]), pick(dens[1], [0, 1, 2, 3, -2, 5]),
                         pick(dens[2], ["", "a", "b", "ab", "ba", "abc"])])
        scope = [("x1", c, ty) for c, ty in T14["t1"] if c != "id"]
        sel = [(("col", "x1", "id", G.INT), "c1")]
        for k in range(3):
            kind = rnd.random()
            if kind < 0.45:
                e = g.int_expr(scope, None, 3)
            elif kind < 0.85:
                e = g.bool_expr(scope, None, 3)
            else:
                e = g.str_expr(scope, None, 2)
            if not G.has_col(e):
                e = ("bin", "+", e, ("col", "x1", "a", G.INT), G.INT) if G.etype(e) == G.INT else e
            sel.append((e, f"c{k + 2}"))
        q = dict(sel=sel, frm=("t", "t1", "x1"), where=None, grp=[], hav=None, agg=False, dist=False, ord=[],
                 lim=-1, off=0)
        if rnd.random() < 0.25:
            q["where"] = g.bool_expr(scope, None, 2)
        cases.append({"db": {"t1": rows}, "q": q, "sql": G.sql_query(q), "pk": False})
    return cases + consumer_sweep(rnd)


def consumer_sweep(rnd):
    """Every boolean kernel that can yield NULL, under every consumer of a boolean: the consumers of the executor
    read the raw bit of a NULL slot (filters, OR / AND fix-ups, CASE), so the kernels must leave false there."""
    A = lambda c, ty=G.INT: ("col", "x1", c, ty)
    Cs = ("col", "x1", "c", G.STR)
    K = lambda v: ("ci", v)
    B = lambda op, l, r: ("bin", op, l, r, G.BOOL)
    kernels = [B("like", Cs, ("cs", "%")), B("like", Cs, ("cs", "")), B("like", Cs, ("cs", "a%")), B("like", Cs, ("cs", "_%")),
               ("nlike", B("like", Cs, ("cs", "b%")), G.BOOL),
               B("=", A("a"), K(1)), B("<>", A("a"), K(1)), B("<", A("a"), A("b")), B(">=", A("b"), K(0)),
               B("=", Cs, ("cs", "")), B("<", Cs, ("cs", "b")),
               ("inl", A("a"), [0, 1, 7], False, G.BOOL), ("inl", A("a"), [0, 1, 7], True, G.BOOL),
               ("between", A("a"), K(0), K(2), False, G.BOOL), ("between", A("b"), A("a"), K(3), True, G.BOOL),
               B("=", ("bin", "+", A("a"), A("b"), G.INT), K(3)), B(">", ("bin", "/", A("a"), A("b"), G.INT), K(0)),
               B("=", ("case", B(">", A("a"), K(1)), A("b"), A("a"), G.INT), K(1)),
               # numeric -> boolean casts: the flag is computed from a number whose slot under a NULL is arbitrary
               ("castb", A("a"), G.BOOL), ("castb", ("bin", "+", A("a"), K(1), G.INT), G.BOOL),
               ("castb", ("bin", "-", K(1), A("b"), G.INT), G.BOOL), ("castb", ("bin", "*", A("a"), A("b"), G.INT), G.BOOL),
               ("castb", ("case", B(">", A("a"), K(1)), A("b"), K(5), G.INT), G.BOOL)]
    T = B(">", A("b"), K(100))        # false or NULL
    U = B("<", A("b"), K(100))        # true or NULL
    out = []
    idc = (("col", "x1", "id", G.INT), "c1")
    base = dict(frm=("t", "t1", "x1"), grp=[], hav=None, agg=False, dist=False, ord=[], lim=-1, off=0)
    for k in kernels:
        rows = []
        dens = [rnd.choice([0.0, 0.3, 0.6]) for _ in range(3)]
        pick = lambda d, pool: None if rnd.random() < d else rnd.choice(pool)
        for r in range(rnd.choice([5, 65, 130])):
            rows.append([r, pick(dens[0] + 0.2, [0, 1, 2, 3, -1, 7]), pick(dens[1] + 0.2, [0, 1, 2, 3, -2]),
                         pick(dens[2] + 0.2, ["", "a", "b", "ab", "ba"])])
        sel = [idc, (k, "c2"), (("bin", "or", k, T, G.BOOL), "c3"), (("bin", "and", k, U, G.BOOL), "c4"),
               (("not", k, G.BOOL), "c5"), (("case", k, K(1), K(0), G.INT), "c6"), (("isnull", k, False, G.BOOL), "c7")]
        qs = [dict(base, sel=sel, where=None),
              dict(base, sel=[idc, (A("a"), "c2")], where=k),
              dict(base, sel=[idc, (A("a"), "c2")], where=("bin", "or", k, T, G.BOOL)),
              dict(base, sel=[idc, (A("a"), "c2")], where=("bin", "and", ("bin", "or", T, k, G.BOOL), U, G.BOOL)),
              dict(base, sel=[(("agg", "count", k, G.INT), "c1"), (("agg", "count*"), "c2")], where=None, agg=True)]
        for q in qs:
            out.append({"db": {"t1": rows}, "q": q, "sql": G.sql_query(q), "pk": False})
    return out


def run_expr_cases(cases, tag):
    runs, labels = [], []
    for i, c in enumerate(cases):
        for eng in ("mem", "disk"):
            rows = c["db"]["t1"]
            steps = [{"sql": "create table t1(id int, a int, b int, c varchar)"}]
            # one INSERT (one chunk / row-set), or split in two for odd cases
            parts = [rows] if i % 3 else [rows[: len(rows) // 2], rows[len(rows) // 2:]]
            for part in parts:
                if part:
                    steps.append({"sql": "insert into t1 values " + ", ".join(
                        "(" + ", ".join(G.lit(v) for v in r) + ")" for r in part)})
            lab = []
            steps.append({"sql": c["sql"], "stypes": True}); lab.append((len(steps) - 1, f"{eng}.on"))
            steps.append({"sql": "pragma disable_optimizer"})
            steps.append({"sql": c["sql"]}); lab.append((len(steps) - 1, f"{eng}.off"))
            runs.append({"id": f"{i}.{eng}", "engine": eng, "opts": {"block": 4096}, "steps": steps})
            labels.append(lab)
    outs = run_sharded("sql", runs, tag=tag, timeout=3300, case_timeout=40)
    S.collect(cases, runs, labels, outs)
    # static types recorded with the optimized run
    for run, lab, out in zip(runs, labels, outs):
        i = int(run["id"].split(".")[0])
        if out.get("hang") or "fatal" in out:
            continue
        r = out["res"][lab[0][0]]
        cases[i].setdefault("stypes", {})[run["engine"]] = r.get("stypes")
    for c in cases:
        pass


def tables_for_validate(cases):
    # SqlObs resolves columns by position: T14 layout
    return cases


def validate14(cases, tag):
    """like sqlcheck.validate but with the T14 table layout"""
    ensure_dirs()
    p = os.path.join(WORK, f"sqlobs-{tag}-{os.getpid()}.ndjson")
    order = []
    with open(p, "w") as f:
        for i, c in enumerate(cases):
            labs = [l for l, o in c["obs"].items() if "rows" in o]
            order.append(labs)
            f.write(json.dumps({"id": str(i), "db": G.enc_db(c["db"]), "q": G.res_query(c["q"], [], T14),
                                "obs": [c["obs"][l]["rows"] for l in labs]}) + "\n")
    r = tlc(S.SPEC_OBS, S.CFG_OBS, workers=1, timeout=3000, xmx="6g", env={"OBS": p}, tag=f"sqlobs-{tag}-{os.getpid()}")
    V, E = {}, {}
    for line in r["out"].splitlines():
        m = re.match(r'<<"V", "(\d+)", <<(.*)>>>>$', line)
        if m:
            V[int(m.group(1))] = [x == "TRUE" for x in m.group(2).split(", ")] if m.group(2) else []
        m = re.match(r'<<"E", "(\d+)", "(.*)">>$', line)
        if m:
            E[int(m.group(1))] = json.loads(m.group(2).replace('\\"', '"'))
    os.remove(p)
    if len(V) != len(cases):
        log(r["out"][-3000:])
        raise ToolError(f"result validation: {len(V)}/{len(cases)} verdicts from TLC")
    for i, c in enumerate(cases):
        c["expected"] = E[i]
        c["match"] = dict(zip(order[i], V[i]))


def first_diff(exp, got):
    ek = {json.dumps(r[0]): r for r in exp}
    for r in got:
        e = ek.get(json.dumps(r[0]))
        if e is None or e != r:
            return {"row": r, "expected": e}
    return None


def check_c14(args):
    t0 = time.time()
    seed, tier = seed_tier(args)
    build()
    v = Verdict("C14")
    n = 900 if tier == "thorough" else 90
    cases = expr_cases(seed * 53 + 1, n)
    run_expr_cases(cases, "c14")
    validate14(cases, "c14")
    evals, nontriv, errs = 0, set(), {}
    for c in cases:
        for lab, o in c["obs"].items():
            if "rows" in o:
                evals += len(o["rows"]) * 3
                if not c["match"][lab]:
                    eng = lab.split(".")[0]
                    fd = first_diff(c["expected"], o["rows"])
                    ek = {json.dumps(r[0]): r for r in c["expected"]}
                    only_null_to_false = all(
                        all(e == g or (e in (["n", 0], ["b", 0]) and g in (["n", 0], ["b", 0]))
                            for e, g in zip(ek.get(json.dumps(row[0]), []), row))
                        and len(ek.get(json.dumps(row[0]), [])) == len(row) for row in o["rows"]) and len(o["rows"]) == len(c["expected"])
                    if lab.endswith(".on") and c["match"].get(f"{eng}.off") and only_null_to_false and v.is_known("F28"):
                        v.note_known("F28")
                        continue
                    v.violation({"sql": c["sql"], "config": lab, "rows": len(c["db"]["t1"]),
                                 "first_difference": first_diff(c["expected"], o["rows"])},
                                f"[{lab}] {c['sql']} over {len(c['db']['t1'])} rows: "
                                f"{first_diff(c['expected'], o['rows'])}")
                else:
                    nontriv.add(c["sql"])
            else:
                k = (lab, "panic" if o.get("panic") else "err", re.sub(r"[0-9]+", "N", str(o.get("err")))[:60])
                errs[k] = errs.get(k, 0) + 1
                if not str(o.get("err", "")).startswith("bind error"):
                    v.violation({"sql": c["sql"], "config": lab, "error": o},
                                f"[{lab}] {c['sql']} failed: {o.get('err')}")
    sstats = scalar_part(seed, tier, v)
    evals += sstats["evaluations"]
    import sqlknown
    sqlknown.run_repros(v, "C14")
    rc = v.finish()
    write_evidence("C14", tier, seed, "exploration", {
        "evaluations": evals, "distinct_nontrivial": len(nontriv) + sstats["statements_returning_rows"],
        "typed_scalar_part": sstats,
        "tlaps": tlaps("ScalarOv"),
        "rule": "select id, e1, e2, e3 from t1 with random expressions of depth <= 3 over arithmetic (+ - * / % neg), "
                "comparisons, AND/OR/NOT, IS [NOT] NULL, CASE, IN list, LIKE, || on int / varchar columns with NULLs; "
                "tables of 1, 63, 64, 65, 130, 200 rows (bitmap word boundaries), one or two chunks / row-sets, "
                "memory and disk, optimizer on (constant folding, expression rules) and off; TLC evaluates SqlSem.tla "
                "row by row (rows are tied to their input by the id column); evaluations = rows x expressions",
        "samples": [{"sql": c["sql"], "rows": len(c["db"]["t1"])} for c in cases[:3]],
        "failures_by_kind": {" | ".join(k): n for k, n in errs.items()},
        "known_findings_seen": sorted(v.seen_known)},
        ["second part (Scalar.tla): select id, e1..e3 with typed expressions over smallint / int / varchar columns "
         "holding boundary values (MIN, MAX, 32767/32768, 46341, text that does or does not parse), all-NULL columns, "
         "arithmetic with overflow, unary minus, casts between smallint / int / boolean / varchar, ||, replace, "
         "repeat, LIKE; the statement must fail iff some expression fails on some row",
         "bigint, floats, decimals, dates, intervals, EXTRACT, SUBSTRING are not in the TLA+ value model (TLC integers "
         "are 32 bit)",
         "the overflow tests of Scalar.tla for + - and unary minus (written without leaving 32 bits) are proved equal to "
         "the exact definition over unbounded integers for every bound M (spec/proofs/ScalarOv.tla, TLAPS, re-proved in "
         "every run); the test for * was checked exact for SMALLINT by z3 over bit-vectors (spec/proofs/mulov_z3.py, "
         "unsat in 59 s; the INT instance did not finish in 240 s and is covered by boundary cases only)",
         "error-producing sub-expressions are not generated below AND / OR / CASE / IN (eager vs. lazy evaluation of "
         "failing branches is not decided by the property)"],
        time.time() - t0, len(v.violations))
    return rc


def scalar_part(seed, tier, v):
    """Typed scalar expressions that can fail (Scalar.tla): widths, overflow, casts, string functions."""
    import scalarcheck as X
    n = 1500 if tier == "thorough" else 160
    cs = X.cases(seed * 97 + 13, n)
    X.run(cs, "c14s")
    X.validate(cs, "c14s")
    st = {"statements": len(cs), "evaluations": 0, "statements_returning_rows": 0, "statements_failing_as_prescribed": 0,
          "observations": 0}
    for c in cs:
        nexpr = len(c["exprs"])
        for lab, o in c["obs"].items():
            st["observations"] += 1
            eng, conf = lab.split(".")
            fails = c["expected"]["fails"]
            info = {"sql": c["sql"], "config": lab, "rows": c["rows"][:40], "prescribed_failure": fails}
            if o.get("hang"):
                v.violation(dict(info, observed=o), f"[{lab}] {c['sql']} hangs")
                continue
            msg = str(o.get("err", ""))
            if c["match"][lab]:
                if "rows" in o:
                    st["evaluations"] += len(o["rows"]) * nexpr
                    st["statements_returning_rows"] += 1
                else:
                    st["statements_failing_as_prescribed"] += 1
                    if o.get("panic") and v.is_known("F18") and re.search("with overflow|divisor of zero|invalid digit", msg):
                        v.note_known("F18")       # the failure is a panic that escapes Database::run
                    elif o.get("panic"):
                        v.violation(dict(info, observed=o), f"[{lab}] {c['sql']}: panic escapes Database::run: {msg[:120]}")
                continue
            if not fails and "rows" not in o:
                # prescribed: a value for every row; observed: the statement fails
                if re.search("attempt to (add|subtract|multiply|negate|divide) with overflow", msg) and c["null_arith"] \
                        and v.is_known("F30"):
                    v.note_known("F30")
                    continue
                v.violation(dict(info, observed=o), f"[{lab}] {c['sql']} fails ({msg[:100]}) although every row has a value")
            elif fails and "rows" in o:
                off = c["obs"].get(f"{eng}.off", {})
                if conf == "on" and c["match"].get(f"{eng}.off") and "with overflow" in str(off.get("err", "")) \
                        and c["agree_where_defined"][lab] and v.is_known("F31"):
                    v.note_known("F31")
                    continue
                v.violation(dict(info, observed=o["rows"][:10]),
                            f"[{lab}] {c['sql']} returns rows although an expression fails on some row (out-of-range "
                            f"cast / overflow / unparsable text must be reported, not wrapped or replaced)")
            else:
                exp = {json.dumps(r[0]): r for r in c["expected"]["rows"]}
                d = next(({"got": r, "want": exp.get(json.dumps(r[0])), "input": c["rows"][r[0][1]] if r[0][0] == "i" and r[0][1] < len(c["rows"]) else None}
                          for r in o["rows"] if exp.get(json.dumps(r[0])) != r), None)
                v.violation(dict(info, first_difference=d), f"[{lab}] {c['sql']}: {d}")
    return st


# ------------------------------------------------------------------------------------ C16
CONCRETE = {
    # (type, class) -> (SQL literal, expected stored value as (tag, payload) or None)
    ("smallint", "fits"): ("7", 7), ("smallint", "fits_min"): ("(-32768)", -32768), ("smallint", "fits_max"): ("32767", 32767),
    ("smallint", "too_big"): ("32768", None), ("smallint", "too_small"): ("(-32769)", None),
    ("smallint", "text_of_value"): ("'7'", 7), ("smallint", "text_garbage"): ("'x7'", None),
    ("int", "fits"): ("7", 7), ("int", "fits_min"): ("(-2147483648)", -2147483648), ("int", "fits_max"): ("2147483647", 2147483647),
    ("int", "too_big"): ("2147483648", None), ("int", "too_small"): ("(-2147483649)", None),
    ("int", "widens"): ("cast(7 as smallint)", 7), ("int", "text_of_value"): ("'7'", 7), ("int", "text_garbage"): ("'x7'", None),
    ("int", "other_kind"): ("true", 1),
    ("bigint", "fits"): ("7", 7), ("bigint", "fits_min"): ("(-9223372036854775807)", -9223372036854775807),
    ("bigint", "fits_max"): ("9223372036854775807", 9223372036854775807),
    ("bigint", "too_big"): ("9223372036854775808", None), ("bigint", "too_small"): ("(-9223372036854775809)", None),
    ("bigint", "widens"): ("cast(7 as int)", 7), ("bigint", "text_of_value"): ("'7'", 7), ("bigint", "text_garbage"): ("'x7'", None),
    ("bool", "fits"): ("true", True), ("bool", "text_of_value"): ("'true'", True), ("bool", "text_garbage"): ("'maybe'", None),
    ("bool", "other_kind"): ("1", True),
    ("varchar", "fits"): ("'ab'", "ab"),
}


# further literals of the same value class (the class, not the literal, is what Store.tla talks about):
# values beyond the next wider type whose low bits would fit, the extremes of BIGINT
MORE = {
    ("smallint", "too_big"): ["65541", "4294967301", "9223372036854775807", "2147483648"],
    ("smallint", "too_small"): ["(-65531)", "(-4294967289)", "(-9223372036854775807)", "(-2147483649)"],
    ("int", "too_big"): ["4294967303", "9223372036854775807", "(4294967296 * 3)"],
    ("int", "too_small"): ["(-4294967289)", "(-9223372036854775807)"],
}


def store_cases():
    r = tlc(os.path.join(SPEC, "Store.tla"), os.path.join(SPEC, "mc", "Store.cfg"), workers=1, timeout=300)
    cases = tlc_lines(r["out"], "CASE")
    if not cases:
        log(r["out"][-2000:])
        raise ToolError("Store.tla produced no cases")
    return cases, r


def check_c16(args):
    t0 = time.time()
    seed, tier = seed_tier(args)
    build()
    v = Verdict("C16")
    # ---- (a) runtime types == static types, arity == select list
    n = 1200 if tier == "thorough" else 150
    cases = S.gen_cases(seed * 61 + 2, n, [S.ENVELOPE, S.ENVELOPE_INNER_ON])
    runs, labels = [], []
    for i, c in enumerate(cases):
        for eng in ("mem", "disk"):
            steps = [{"sql": s} for s in S.case_setup(c, eng, split_inserts=False)]
            steps.append({"sql": c["sql"], "stypes": True})
            runs.append({"id": f"{i}.{eng}", "engine": eng, "steps": steps})
    outs = run_sharded("sql", runs, tag="c16", timeout=3000, case_timeout=30)
    checked, nontriv, bad_static = 0, set(), 0
    for run, out in zip(runs, outs):
        i = int(run["id"].split(".")[0])
        c = cases[i]
        if out.get("hang") or "fatal" in out:
            continue
        r = out["res"][-1]
        if not r["ok"]:
            continue
        st = r.get("stypes")
        if not isinstance(st, list):
            bad_static += 1
            continue
        nsel = len(c["q"]["sel"])
        checked += 1
        if len(st) != nsel:
            v.violation({"sql": c["sql"], "static": st}, f"{c['sql']}: binder derives {len(st)} columns for {nsel} select items")
            continue
        if r["rows"]:
            nontriv.add(c["sql"])
            if any(len(row) != nsel for row in r["rows"]):
                v.violation({"sql": c["sql"], "rows": r["rows"][:3]}, f"{c['sql']}: a row has not {nsel} columns")
                continue
            rt = r.get("types", [])
            if rt != st:
                v.violation({"sql": c["sql"], "static": st, "runtime": rt, "engine": run["engine"]},
                            f"[{run['engine']}] {c['sql']}: result arrays are {rt}, the type checker derived {st}")
                continue
            # every value fits the kind of its column type
            kinds = {"Int16": "i", "Int32": "i", "Int64": "i", "Bool": "b", "String": "s"}
            for row in r["rows"]:
                for val, t in zip(row, st):
                    if val[0] != "n" and kinds.get(t, val[0]) != val[0]:
                        v.violation({"sql": c["sql"], "value": val, "type": t}, f"{c['sql']}: value {val} in a {t} column")
                        break
    # ---- (a') every pair of column types under every arithmetic / comparison operator, CASE with branches of
    # different types, every aggregate of every type: static type == array variant
    tcols = [("i", "smallint", "3"), ("j", "int", "4"), ("k", "bigint", "5"), ("f", "double", "1.5"), ("d", "decimal(10,2)", "2.25"),
             ("b", "boolean", "true"), ("s", "varchar", "'x'"), ("t", "date", "date '2020-01-02'")]
    exprs = []
    nums = [c for c, ty, _ in tcols if ty not in ("boolean", "varchar", "date")]
    for x in nums:
        for y in nums:
            for op in ("+", "-", "*", "/", "%", "<", "="):
                exprs.append(f"{x} {op} {y}")
            exprs.append(f"case when b then {x} else {y} end")
        exprs += [f"- {x}", f"sum({x})", f"min({x})", f"max({x})", f"count({x})", f"avg({x})", f"{x} + 1", f"{x} * 1.5",
                  f"cast({x} as varchar)", f"{x} is null", f"{x} in (1, 2)", f"{x} between 1 and 5"]
    exprs += ["s || s", "s like 'x%'", "min(s)", "max(t)", "count(*)", "b and b", "not b", "s = s", "t < t", "min(b)",
              "case when b then s else 'y' end", "replace(s, 'x', 'y')"]
    runs3 = []
    for k0 in range(0, len(exprs), 12):
        part = exprs[k0:k0 + 12]
        for eng in ("mem", "disk"):
            steps = [{"sql": "create table ty(" + ", ".join(f"{c} {ty}" for c, ty, _ in tcols) + ")"},
                     {"sql": "insert into ty values (" + ", ".join(v0 for _, _, v0 in tcols) + ")"},
                     {"sql": "insert into ty values (" + ", ".join("NULL" for _ in tcols) + ")"}]
            steps += [{"sql": f"select {e} from ty", "stypes": True} for e in part]
            runs3.append({"id": f"{k0}.{eng}", "engine": eng, "steps": steps, "exprs": part})
    outs3 = run_sharded("sql", runs3, tag="c16t", timeout=1200, case_timeout=60)
    npairs = 0
    for run, out in zip(runs3, outs3):
        if out.get("hang") or "fatal" in out:
            raise ToolError(f"type sweep failed to run: {out}")
        for e, r in zip(run["exprs"], out["res"][3:]):
            if not r["ok"]:
                continue            # not accepted / not evaluable: no result column to compare
            st, rt = r.get("stypes"), r.get("types", [])
            if not isinstance(st, list) or not r["rows"]:
                continue
            npairs += 1
            if rt != st:
                v.violation({"sql": f"select {e} from ty", "static": st, "runtime": rt, "engine": run["engine"]},
                            f"[{run['engine']}] select {e} from ty: result arrays are {rt}, the type checker derived {st}")
    # ---- (b) INSERT conversions and constraints (cases enumerated by TLC from Store.tla)
    scases, r = store_cases()
    runs2, meta = [], []
    for k, sc in enumerate(scases):
        ty, cls, nn, form = sc["ty"], sc["cls"], sc["nullable"], sc["form"]
        if cls == "null":
            litv, want = "NULL", None
        else:
            if (ty, cls) not in CONCRETE:
                continue
            litv, want = CONCRETE[(ty, cls)]
        col = f"v {'boolean' if ty == 'bool' else ty}" + {"nullable": "", "not_null": " not null", "primary_key": " primary key"}[sc["decl"]]
        kl = "NULL" if sc.get("knull") else "1"
        lits = [(litv, want)] + [(l, None) for l in MORE.get((ty, cls), [])[: (4 if tier == "thorough" else 2)]]
        for litv, want in lits:
          for eng in ("mem", "disk"):
              steps = [{"sql": f"create table t(k int, {col})"}]
              if form == "values":
                  steps.append({"sql": f"insert into t values ({kl}, {litv})"})
              elif form == "listed":
                  steps.append({"sql": f"insert into t(k, v) values ({kl}, {litv})"})
              elif form == "permuted":
                  steps.append({"sql": f"insert into t(v, k) values ({litv}, {kl})"})
              elif form in ("select", "select_permuted"):
                  steps.append({"sql": "create table src(k int)"})
                  steps.append({"sql": "insert into src values (1)"})
                  steps.append({"sql": f"insert into t select k, {litv} from src" if form == "select" else
                                f"insert into t(v, k) select {litv}, k from src"})
              elif form == "subset_other":
                  steps.append({"sql": f"insert into t(v) values ({litv})"})
                  kl = "NULL"
              else:   # column subset: v is not mentioned -> NULL
                  steps.append({"sql": "insert into t(k) values (1)"})
              steps.append({"sql": "select v, k from t"})
              runs2.append({"id": f"{k}.{eng}", "engine": eng, "steps": steps})
              meta.append((dict(sc, k_offered=kl), litv, want, eng))
    outs2 = run_sharded("sql", runs2, tag="c16b", timeout=1200, case_timeout=30)
    nstore = 0
    for (sc, litv, want, eng), out in zip(meta, outs2):
        if out.get("hang") or "fatal" in out:
            raise ToolError(f"store case failed to run: {out}")
        ins, sel = out["res"][-2], out["res"][-1]
        nstore += 1
        allowed = set(sc["allowed"])
        if not ins["ok"]:
            outcome = "err"
        elif not sel["ok"] or len(sel["rows"]) != 1:
            outcome = f"unreadable: {sel}"
        else:
            val = sel["rows"][0][0]
            if val[0] == "n":
                outcome = "null"
            else:
                got = val[1] if val[0] in ("i",) else (bool(val[1]) if val[0] == "b" else
                                                       ("".join(chr(x) for x in val[1]) if val[0] == "s" else val[1]))
                outcome = "same" if (want is not None and got == want) else f"other value {got!r}"
            kv = sel["rows"][0][1]
            if (kv[0] == "n") != (sc["k_offered"] == "NULL") or (kv[0] != "n" and kv[1] != 1):
                outcome = f"the other column holds {kv} for {sc['k_offered']}"
        if outcome not in allowed:
            v.violation({"case": sc, "literal": litv, "engine": eng, "insert": ins, "select": sel},
                        f"[{eng}] INSERT of {litv} into {sc['ty']}{'' if sc['nullable'] else ' NOT NULL'} via "
                        f"{sc['form']}: outcome `{outcome}`, allowed {sorted(allowed)}")
    import sqlknown
    sqlknown.run_repros(v, "C16")
    rc = v.finish()
    write_evidence("C16", tier, seed, "exploration", {
        "evaluations": checked + nstore, "distinct_nontrivial": len(nontriv) + len(scases),
        "rule": "(a) generated queries of the C02 grammar on both engines: the array variant of every result column "
                "must equal the type the binder derives (static types read through Binder + TypeSchemaAnalysis), "
                "every row must have the select list's arity, every value the kind of its type; (b) INSERT cases "
                "enumerated by TLC from Store.tla (column type x nullability x value class x VALUES / SELECT / "
                "column subset), outcome must be in the set Store.tla allows",
        "samples": [{"sql": cases[0]["sql"]}, scases[0]],
        "queries_type_checked": checked, "type_pair_expressions": npairs, "store_cases": nstore, "static_types_unavailable": bad_static,
        "known_findings_seen": sorted(v.seen_known)},
        ["value classes are concretised by a hand-written literal table (lib/typecheck.py CONCRETE)",
         "types covered: smallint, int, bigint, bool, varchar"], time.time() - t0, len(v.violations))
    return rc
