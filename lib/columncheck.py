"""C06: column encodings round-trip every value exactly (Column.tla)."""
import json, os, random, re, time
from common import *


def enc(v):
    if v is None:
        return ["n", 0]
    if isinstance(v, bool):
        return ["b", int(v)]
    if isinstance(v, int):
        return ["i", v] if -2 ** 31 <= v < 2 ** 31 else ["x", str(v)]
    if isinstance(v, tuple):
        return ["x", v[0]]
    return ["s", [ord(c) for c in v]]


# abstract alphabet N A B C (+ D E for run-shaped sequences) -> concrete values per type
VALUES = {
    "smallint": [0, 1, -32768, 32767, 7],
    "int": [0, -1, 2147483647, -2147483648, 42],
    "bigint": [0, 9223372036854775807, -9223372036854775808, 5, -7],
    "bool": [True, False, True, False, True],
    "double": [("0",), ("-1.5",), ("1e300",), ("3.25",), ("-0",)],
    "varchar": ["", "a", "b" * 300, "ab", "é√"],
    "decimal": [("0",), ("1.50",), ("-123456789.123456789",), ("7",), ("0.001",)],
    "date": [("1970-01-01",), ("2024-02-29",), ("0001-01-01",), ("9999-12-31",), ("2000-06-15",)],
    "blob": [("\\x00",), ("",), ("\\xde\\xad\\xbe\\xef",), ("abc",), ("\\xff\\x00",)],
    "interval": [("1 month",), ("27 days 3 hours",), ("1 year 2 months 3 days",), ("0 days",), ("90 seconds",)],
    "timestamp": [("2000-01-01 00:00:00",), ("1970-01-01 00:00:01",), ("2024-02-29 23:59:59",), ("1999-12-31 12:00:00",),
                  ("2038-01-19 03:14:08",)],
    # fixed-width CHAR(5) (no production path builds it; reached through verif_api): '', short and full-width values
    "char5": ["", "a", "abcde", "ab", "vwxyz"],
}


def sequences(rnd, n):
    """Abstract sequences over {N, 0..4}: short exhaustive-ish ones and run-shaped long ones."""
    out = []
    for _ in range(n):
        k = rnd.random()
        if k < 0.4:
            ln = rnd.choice([0, 1, 2, 3, 5, 7])
            out.append([rnd.choice(["N", 0, 1, 2]) for _ in range(ln)])
        elif k < 0.8:
            seq = []
            while len(seq) < rnd.choice([20, 40, 90, 200]):
                seq += [rnd.choice(["N", 0, 1, 2, 3, 4])] * rnd.choice([1, 1, 2, 5, 17, 33])
            out.append(seq)
        else:
            out.append([rnd.choice([0, 1, 2, 3, 4, "N"]) for _ in range(rnd.choice([64, 65, 130, 300]))])
    return out


def check_c06(args):
    t0 = time.time()
    seed, tier = seed_tier(args)
    build()
    v = Verdict("C06")
    rnd = random.Random(seed * 29 + 3)
    big = tier == "thorough"
    cases = []
    seqs = sequences(rnd, 60 if big else 14)
    blocks = [24, 32, 40, 128, 4096] if big else [24, 40, 128, 4096]
    cid = 0
    for seq in seqs:
        for ty in VALUES:
            for encode in ("plain", "rle", "dict"):
                if not big and rnd.random() < 0.5:
                    continue
                nullable = "N" in seq or rnd.random() < 0.5
                if "N" in seq and not nullable:
                    continue
                vals = [None if x == "N" else VALUES[ty][x] for x in seq]
                block = rnd.choice(blocks)
                # append in one or two chunks
                cut = rnd.choice([len(vals), len(vals) // 2]) if vals else 0
                chunks = [vals[:cut], vals[cut:]] if 0 < cut < len(vals) else [vals]
                start = rnd.choice([0, 0, len(vals) // 3, max(len(vals) - 1, 0), len(vals)]) if vals else 0
                # several read programs per column (different start rows and seeds)
                for k in range(4):
                    cases.append({"id": str(cid), "ty": "varchar" if ty == "char5" else ty,
                                  "char_width": 5 if ty == "char5" else 0,
                                  "nullable": nullable, "encode": encode, "block": block,
                                  "chunks": [[enc(x) for x in c] for c in chunks if c or len(chunks) == 1],
                                  "start": start if k == 0 else rnd.choice([0, 0, 1, len(vals) // 5]),
                                  "seed": rnd.randrange(1, 2 ** 31)})
                    cid += 1
    # very long runs (run counts beyond 16384 / 32768 / 65535) in run-length and plain columns
    for ty in ("int", "varchar", "smallint"):
        for runlen in ([40000, 70000] if big else [40000]):
            for nullable_run in (False, True):
                v0, v1 = VALUES[ty][1], VALUES[ty][3]
                vals = [v1] * 3 + ([None] * runlen if nullable_run else [v0] * runlen) + [v1, v0, v1] * 3
                for encode in ("rle", "plain") if runlen == 40000 else ("rle",):
                    for k in range(2):
                        cases.append({"id": str(cid), "ty": ty, "char_width": 0, "nullable": True, "encode": encode,
                                      "block": rnd.choice([128, 4096]), "chunks": [[enc(x) for x in vals]],
                                      "start": [0, runlen - 5][k], "seed": rnd.randrange(1, 2 ** 31)})
                        cid += 1
    cases = [c for c in cases if any(c["chunks"])]        # an empty row-set can not be built
    outs = run_sharded("column", cases, tag="c06", timeout=3000, case_timeout=60)
    recs, meta = [], {}
    for c, o in zip(cases, outs):
        info = {k: c[k] for k in ("ty", "char_width", "nullable", "encode", "block", "start", "seed")}
        info["values"] = [x for ch in c["chunks"] for x in ch][:60]
        if o.get("hang") or "panic" in o or "build_err" in o:
            v.violation(dict(info, result=o), f"column {c['ty']}/{c['encode']}/block {c['block']}: "
                        f"{'hangs' if o.get('hang') else o.get('panic') or o.get('build_err')}")
            continue
        # the written sequence in the harness's own encoding of the parsed values (display form)
        vals = o["written"]
        recs.append({"id": c["id"], "vals": vals, "start": c["start"], "events": o["events"]})
        if c["ty"] == "double" and c["encode"] == "rle":
            # second reading for the recorded finding F29: the sign of a zero is not kept by run-length blocks
            z = lambda x: ["x", "0"] if x == ["x", "-0"] else x
            recs.append({"id": c["id"] + "z", "vals": [z(x) for x in vals], "start": c["start"],
                         "events": [dict(e, vals=[z(x) for x in e["vals"]]) for e in o["events"]]})
            meta[c["id"] + "z"] = (info, o)
        meta[c["id"]] = (info, o)
    p = os.path.join(WORK, f"col-{os.getpid()}.ndjson")
    with open(p, "w") as f:
        for r in recs:
            f.write(json.dumps(r) + "\n")
    r = tlc(os.path.join(SPEC, "ColumnObs.tla"), os.path.join(SPEC, "mc", "ColumnObs.cfg"), workers=1, timeout=3000,
            xmx="6g", env={"OBS": p}, tag=f"col-{os.getpid()}")
    os.remove(p)
    got, reads, nontriv, multi = 0, 0, set(), 0
    verdicts = {}
    for line in r["out"].splitlines():
        m = re.match(r'<<"COL", "(\d+z?)", (TRUE|FALSE), "([^"]*)", (\d+)>>', line)
        if m:
            verdicts[m.group(1)] = m
    for rid, m in verdicts.items():
        got += 1
        if rid.endswith("z"):
            continue
        info, o = meta[m.group(1)]
        if m.group(2) == "FALSE" and (rid + "z") in verdicts and verdicts[rid + "z"].group(2) == "TRUE" and v.is_known("F29"):
            v.note_known("F29")
            continue
        reads += len(o["events"])
        if o["blocks"] > 1:
            multi += 1
            nontriv.add(json.dumps([info["ty"], info["encode"], info["block"], info["values"][:20]]))
        if m.group(2) == "FALSE":
            at = int(m.group(4))
            ev = o["events"][at - 1] if 0 < at <= len(o["events"]) else None
            v.violation(dict(info, events=o["events"][:at + 1], blocks=o["blocks"]),
                        f"column {info['ty']} / {info['encode']} / nullable={info['nullable']} / block size {info['block']} "
                        f"({o['blocks']} blocks), read from row {info['start']}: {m.group(3)} at step {at}: "
                        f"{json.dumps(ev)[:200]}")
    if got != len(recs):
        log(r["out"][-3000:])
        raise ToolError(f"ColumnObs: {got}/{len(recs)} verdicts")
    rc = v.finish()
    write_evidence("C06", tier, seed, "exploration", {
        "evaluations": reads, "distinct_nontrivial": len(nontriv),
        "rule": "value sequences over the alphabet {NULL, A..E} (short ones and run-shaped ones up to 300 values, "
                "crossing block and run boundaries) concretised for smallint, int, bigint, bool, double, varchar "
                "(incl. '' and a 300-byte string), decimal, date, blob x {plain, run-length, dictionary} x nullable x "
                "block sizes {24, 32, 40, 128, 4096}, appended in one or two chunks; read through the real column "
                "iterator from a start row with a seeded program of next_batch(n) (n in 1,2,3,5,17,64,None) and "
                "skip(k); TLC validates every recorded call against the contract of Column.tla (row position, batch "
                "= slice of the written sequence, no row lost or duplicated, end only at the end); non-trivial = "
                "columns of more than one block",
        "samples": [{k: cases[0][k] for k in ("ty", "encode", "block", "start")}],
        "columns": len(recs), "multi_block_columns": multi, "known_findings_seen": sorted(v.seen_known)},
        ["bit-level encodings are not modelled: the spec is the read/write contract",
         "char(n), timestamp, interval and vector columns are not generated"], time.time() - t0, len(v.violations))
    return rc
