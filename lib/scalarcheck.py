"""C14, second half: typed scalar expressions that can fail (Scalar.tla / ScalarObs.tla): SMALLINT and INT
arithmetic at the boundaries, casts between smallint / int / boolean / varchar, unary minus, string
functions; evaluated by the real engine over batches of 1..200 rows with NULLs, all-NULL columns and
boundary values, optimizer on and off, memory and disk; TLC decides every statement."""
import json, os, random, re
from common import *
import sqlgen as G

I16, I32, BOOL, STR = "i16", "i32", "b", "s"
COLS = [("id", I32), ("a", I32), ("g", I32), ("s", I16), ("u", I16), ("c", STR), ("z", I32)]   # z is NULL in every row
SQLTY = {I16: "smallint", I32: "int", BOOL: "boolean", STR: "varchar"}
POS = {c: i + 1 for i, (c, _) in enumerate(COLS)}
TY = dict(COLS)

SMALL = [None, 0, 1, 2, 3, -1, 7]
G_WILD = [None, 0, 1, -1, 2147483647, -2147483647, -2147483648, 46341, 65536, 32767, 32768, -32768, -32769, 40000]
S_WILD = [None, 0, 1, -1, 32767, -32768, 182, 100, -181]
U_VALS = [None, 0, 1, 2, -3]
C_CALM = [None, "7", "-3", "+5", "0", "12"]
C_WILD = C_CALM + ["", "a", "ab", "x7", "40000", "32768", "2147483647", "2147483648", "-2147483648", "true", "false",
                   " 1", "1 ", "-", "aaa"]


def table(rnd, n):
    calm = rnd.random() < 0.45
    gp = SMALL if calm else G_WILD
    sp = [None, 0, 1, -1, 100] if calm else S_WILD
    cp = C_CALM if calm else C_WILD
    g_null, s_null = rnd.random() < 0.2, rnd.random() < 0.2
    rows = []
    for i in range(n):
        rows.append([i, rnd.choice(SMALL), None if g_null else rnd.choice(gp), None if s_null else rnd.choice(sp),
                     rnd.choice(U_VALS), rnd.choice(cp), None])
    return rows


class Gen:
    def __init__(self, rnd):
        self.r = rnd

    def col(self, name):
        return ("col", name, TY[name])

    def poison(self):
        """NULL in every row, with a chosen raw value in the slot: z + K (the kernels compute on raw slots; the
        result of an enclosing operator must not depend on it)"""
        return ("ar", "+", I32, self.col("z"), ("k", self.r.choice([40000, 32768, -32769, 2147483647, -2147483647, 65536, 7]), I32))

    def int_leaf(self, want=None):
        r = self.r
        k = r.random()
        if want is None and k < 0.12:
            return self.poison()
        k = r.random()
        if want == I16 or (want is None and k < 0.3):
            if r.random() < 0.8:
                return self.col(r.choice(["s", "u"]))
            return ("cast", I16, ("k", r.choice([0, 1, -1, 100, 32767, -32768, 200]), I32))
        if r.random() < 0.65:
            return self.col(r.choice(["a", "g", "g"]))
        return ("k", r.choice([0, 1, 2, 3, -1, 7, 100, 40000, 65536, 2147483647, -2147483647]), I32)

    def int_expr(self, d):
        r = self.r
        k = r.random()
        if d <= 0 or k < 0.3:
            return self.int_leaf()
        if k < 0.7:
            op = r.choice(["+", "-", "*", "/", "%", "+", "-", "*"])
            l, rr = self.int_expr(d - 1), self.int_expr(d - 1)
            if op == "%":
                # a remainder by zero panics in the kernel (recorded finding F18): the divisor is a non-zero
                # constant (and not -1: MIN % -1)
                rr = ("k", r.choice([1, 2, 3, 7, 100]), I32)
            if op == "/" and not has_col(rr):
                rr = self.col(r.choice(["a", "u", "g"]))      # constant divisors fold (F27 when zero): use a column
            ty = I16 if etype(l) == I16 and etype(rr) == I16 else I32
            return ("ar", op, ty, l, rr)
        if k < 0.78:
            e = self.int_expr(d - 1)
            return ("neg", etype(e), e)
        if k < 0.93:
            to = r.choice([I16, I16, I32])
            j = r.random()
            if j < 0.55:
                return ("cast", to, self.int_expr(d - 1))
            if j < 0.85:
                return ("cast", to, self.col("c"))
            return ("cast", to, self.cmp_expr(d - 1))
        return self.int_leaf()

    def str_expr(self, d):
        r = self.r
        k = r.random()
        if d <= 0 or k < 0.35:
            return self.col("c") if r.random() < 0.8 else ("k", r.choice(["", "a", "7", "ab"]), STR)
        if k < 0.6:
            src = self.int_expr(d - 1) if r.random() < 0.8 else self.cmp_expr(d - 1)
            return ("cast", STR, src)
        if k < 0.75:
            return ("cat", self.str_expr(d - 1), self.str_expr(d - 1))
        if k < 0.9:
            return ("replace", self.str_expr(d - 1), r.choice(["a", "", "ab", "7", "aa"]), r.choice(["", "b", "aa", "-"]))
        return ("repeat", self.str_expr(d - 1), self.col("a") if r.random() < 0.6 else ("k", r.choice([0, 1, 2, 3]), I32))

    def cmp_expr(self, d):
        r = self.r
        op = r.choice(["=", "<>", "<", "<=", ">", ">="])
        if r.random() < 0.8:
            return ("cmp", op, self.int_expr(d), self.int_expr(d))
        return ("cmp", op, self.str_expr(d), self.str_expr(d))

    def bool_expr(self, d):
        r = self.r
        k = r.random()
        if k < 0.45:
            return self.cmp_expr(d - 1)
        if k < 0.6:
            e = r.choice([self.int_expr, self.str_expr])(d - 1)
            return ("isnull", e, r.random() < 0.4)
        if k < 0.7:
            return ("not", self.bool_expr(d - 1))
        if k < 0.8:
            return ("like", self.str_expr(d - 1), r.choice(["a%", "%7", "_", "%", "-_", "", "%a%"]))
        if k < 0.92:
            return ("cast", BOOL, self.int_expr(d - 1))
        return ("cast", BOOL, self.col("c"))

    def top(self):
        k = self.r.random()
        if k < 0.5:
            e = self.int_expr(2)
        elif k < 0.75:
            e = self.bool_expr(2)
        else:
            e = self.str_expr(2)
        return e if has_col(e) else ("ar", "+", I32, e, self.col("a")) if etype(e) in (I16, I32) else self.top()


def etype(e):
    k = e[0]
    if k in ("col", "k"):
        return e[2]
    if k in ("ar",):
        return e[2]
    if k == "neg":
        return e[1]
    if k == "cast":
        return e[1]
    if k in ("cmp", "isnull", "not", "like"):
        return BOOL
    return STR


def has_col(e):
    if e[0] == "col":
        return True
    return any(has_col(x) for x in e[1:] if isinstance(x, tuple))


def sql(e):
    k = e[0]
    if k == "col":
        return f"x1.{e[1]}"
    if k == "k":
        return G.lit(e[1])
    if k == "ar":
        return f"({sql(e[3])} {e[1]} {sql(e[4])})"
    if k == "neg":
        return f"(- {sql(e[2])})"
    if k == "cmp":
        return f"({sql(e[2])} {e[1]} {sql(e[3])})"
    if k == "isnull":
        return f"({sql(e[1])} is {'not ' if e[2] else ''}null)"
    if k == "not":
        return f"(not {sql(e[1])})"
    if k == "cast":
        return f"cast({sql(e[2])} as {SQLTY[e[1]]})"
    if k == "cat":
        return f"({sql(e[1])} || {sql(e[2])})"
    if k == "like":
        return f"({sql(e[1])} like {G.lit(e[2])})"
    if k == "replace":
        return f"replace({sql(e[1])}, {G.lit(e[2])}, {G.lit(e[3])})"
    if k == "repeat":
        return f"repeat({sql(e[1])}, {sql(e[2])})"
    raise ValueError(e)


def codes(s):
    return [ord(c) for c in s]


def res(e):
    k = e[0]
    if k == "col":
        return ["c", POS[e[1]]]
    if k == "k":
        return ["k", G.enc(e[1])]
    if k == "ar":
        return ["ar", e[1], e[2], res(e[3]), res(e[4])]
    if k == "neg":
        return ["neg", e[1], res(e[2])]
    if k == "cmp":
        return ["cmp", e[1], res(e[2]), res(e[3])]
    if k == "isnull":
        return ["notnull" if e[2] else "isnull", res(e[1])]
    if k == "not":
        return ["not", res(e[1])]
    if k == "cast":
        return ["cast", e[1], etype(e[2]), res(e[2])]
    if k == "cat":
        return ["cat", res(e[1]), res(e[2])]
    if k == "like":
        return ["like", res(e[1]), codes(e[2])]
    if k == "replace":
        return ["replace", res(e[1]), codes(e[2]), codes(e[3])]
    if k == "repeat":
        return ["repeat", res(e[1]), res(e[2])]
    raise ValueError(e)


def cases(seed, n):
    rnd = random.Random(seed)
    out = []
    lens = [1, 63, 64, 65, 130, 200, 7]
    for i in range(n):
        g = Gen(rnd)
        rows = table(rnd, lens[i % len(lens)])
        exprs = [g.top() for _ in range(rnd.choice([1, 2, 3]))]
        q = "select x1.id as c0, " + ", ".join(f"{sql(e)} as c{k + 1}" for k, e in enumerate(exprs)) + " from t as x1"
        out.append({"rows": rows, "exprs": exprs, "sql": q})
    return out + poison_sweep(rnd)


def poison_sweep(rnd):
    """Every fallible / branching kernel applied to a NULL whose raw slot holds a boundary value."""
    out = []
    A = ("col", "a", I32)
    for kval in [40000, 32768, -32769, 2147483647, -2147483647, 65536, 7]:
        p = ("ar", "+", I32, ("col", "z", I32), ("k", kval, I32))
        wraps = [("cast", I16, p), ("cast", STR, p), ("cast", BOOL, p), ("neg", I32, p), ("isnull", p, False),
                 ("cmp", "<", p, A), ("ar", "/", I32, A, p), ("ar", "/", I32, p, A), ("ar", "-", I32, A, p),
                 ("cast", I16, ("neg", I32, p)), ("cast", STR, ("cast", I16, p)),
                 ("ar", "+", I32, ("cast", I16, p), A)]
        for w in wraps:
            rows = table(rnd, 5)
            q = f"select x1.id as c0, {sql(w)} as c1 from t as x1"
            out.append({"rows": rows, "exprs": [w], "sql": q})
    return out


def run(cs, tag):
    runs = []
    for i, c in enumerate(cs):
        for eng in ("mem", "disk"):
            steps = [{"sql": "create table t(id int, a int, g int, s smallint, u smallint, c varchar, z int)"}]
            rows = c["rows"]
            parts = [rows] if i % 3 else [rows[: len(rows) // 2], rows[len(rows) // 2:]]
            for part in parts:
                if part:
                    steps.append({"sql": "insert into t values " + ", ".join(
                        "(" + ", ".join(G.lit(v) for v in r) + ")" for r in part)})
            c.setdefault("setup_len", {})[eng] = len(steps)
            steps.append({"sql": c["sql"]})
            steps.append({"sql": "pragma disable_optimizer"})
            steps.append({"sql": c["sql"]})
            runs.append({"id": f"{i}.{eng}", "engine": eng, "opts": {"block": 4096}, "steps": steps})
    outs = run_sharded("sql", runs, tag=tag, timeout=3300, case_timeout=40)
    for run_, out in zip(runs, outs):
        i, eng = run_["id"].split(".")
        c = cs[int(i)]
        obs = c.setdefault("obs", {})
        if out.get("hang"):
            obs[f"{eng}.on"] = obs[f"{eng}.off"] = {"hang": True, "err": "hang"}
            continue
        if "fatal" in out:
            raise ToolError(f"cannot open database: {out['fatal']}")
        ns = c["setup_len"][eng]
        if not all(r["ok"] for r in out["res"][:ns]):
            bad = [r.get("err") for r in out["res"][:ns] if not r["ok"]][:1]
            raise ToolError(f"scalar case setup failed: {bad}")
        for idx, lab in ((ns, f"{eng}.on"), (ns + 2, f"{eng}.off")):
            r = out["res"][idx]
            obs[lab] = {"rows": r["rows"]} if r["ok"] else {"err": str(r.get("err", "")), "panic": bool(r.get("panic"))}


def validate(cs, tag):
    ensure_dirs()
    p = os.path.join(WORK, f"scalarobs-{tag}-{os.getpid()}.ndjson")
    order = []
    with open(p, "w") as f:
        for i, c in enumerate(cs):
            labs = sorted(c["obs"])
            order.append(labs)
            f.write(json.dumps({"id": str(i), "rows": [[G.enc(v) for v in r] for r in c["rows"]],
                                "exprs": [res(e) for e in c["exprs"]],
                                "obs": [{"ok": 1, "rows": c["obs"][l]["rows"]} if "rows" in c["obs"][l]
                                        else {"ok": 0, "rows": []} for l in labs]}) + "\n")
    r = tlc(os.path.join(SPEC, "ScalarObs.tla"), os.path.join(SPEC, "mc", "ScalarObs.cfg"), workers=1, timeout=3000,
            xmx="6g", env={"OBS": p}, tag=f"scalarobs-{tag}-{os.getpid()}")
    V, E, W = {}, {}, {}
    for line in r["out"].splitlines():
        m = re.match(r'<<"XW", "(\d+)", <<(.*)>>, (TRUE|FALSE)>>$', line)
        if m:
            W[int(m.group(1))] = ([x == "TRUE" for x in m.group(2).split(", ")] if m.group(2) else [], m.group(3) == "TRUE")
        m = re.match(r'<<"XV", "(\d+)", <<(.*)>>>>$', line)
        if m:
            V[int(m.group(1))] = [x == "TRUE" for x in m.group(2).split(", ")] if m.group(2) else []
        m = re.match(r'<<"XE", "(\d+)", "(.*)">>$', line)
        if m:
            E[int(m.group(1))] = json.loads(m.group(2).replace('\\"', '"'))
    os.remove(p)
    if len(V) != len(cs) or len(E) != len(cs) or len(W) != len(cs):
        log(r["out"][-3000:])
        raise ToolError(f"scalar validation: {len(V)}/{len(cs)} verdicts from TLC")
    for i, c in enumerate(cs):
        c["expected"] = E[i]
        c["match"] = dict(zip(order[i], V[i]))
        c["agree_where_defined"] = dict(zip(order[i], W[i][0]))
        c["null_arith"] = W[i][1]
