"""Bounded generator of (database, query) cases of the core SQL subset, SQL rendering, resolution of
column references for the TLA+ interpreter (SqlSem.tla) and a SQLite cross-check of the *spec*."""
import random, sqlite3, json

INT, STR, BOOL = "int", "str", "bool"

TABLES = {
    "t1": [("a", INT), ("b", INT), ("c", STR)],
    "t2": [("a", INT), ("b", INT), ("c", STR)],
    "t3": [("a", INT), ("b", INT)],
}
INTS = [None, 0, 1, 2, 3]
# SQL functions (CREATE FUNCTION ... LANGUAGE SQL): arity, body, and the body as an expression over the arguments
FUNCS = {
    "f_add": (2, "select $1 + $2", lambda a, b: ("bin", "+", a, b, INT)),
    "f_inc": (1, "select $1 + 1", lambda a: ("bin", "+", a, ("ci", 1), INT)),
    "f_max": (2, "select case when $1 > $2 then $1 else $2 end", lambda a, b: ("case", ("bin", ">", a, b, BOOL), a, b, INT)),
    "f_nz": (1, "select case when $1 is null then 0 else $1 end",
             lambda a: ("case", ("isnull", a, False, BOOL), ("ci", 0), a, INT)),
}


def prelude(sql):
    """CREATE FUNCTION statements for the functions a statement calls."""
    return [f"create function {fn}({', '.join(['int'] * n)}) returns int language sql as '{body}'"
            for fn, (n, body, _) in sorted(FUNCS.items()) if fn + "(" in sql]
STRS = [None, "", "a", "b", "ab"]


# ----------------------------------------------------------------------------- values
def enc(v):
    if v is None:
        return ["n", 0]
    if isinstance(v, bool):
        return ["b", int(v)]
    if isinstance(v, int):
        return ["i", v]
    return ["s", [ord(c) for c in v]]


def lit(v):
    if v is None:
        return "NULL"
    if isinstance(v, bool):
        return "true" if v else "false"
    if isinstance(v, int):
        return str(v) if v >= 0 else f"({v})"
    return "'" + v.replace("'", "''") + "'"


# ----------------------------------------------------------------------------- generator
class Gen:
    FULL = dict(null_lit=True, inl_null=True, jts=("inner", "inner", "left", "left", "right", "full", "cross"),
                on=("eq", "eq+", "any"), mod="any", subq=("in", "exists", "scalar"), like=True, case=True,
                distinct=True, having=True, neg=True, strcat=True, group_expr=True, agg_str=True,
                order=True, limit=True, sel_bool=True, countd=True, nested_bool=True,
                touch_all=False, const_pred=True, order_const=True, agg_const=True, distinct_order=True,
                not_in_sub=True, not_exists=True, sub_top_only=False, sel_needs_col=False, derived=0.0)

    def __init__(self, rnd, tables=None, subq=True, joins=True, ints=INTS, strs=STRS, maxrows=4, feat=None):
        self.r = rnd
        self.tables = tables or TABLES
        self.f = dict(self.FULL)
        if feat:
            self.f.update(feat)
        self.subq = subq and bool(self.f["subq"])
        self.joins = joins
        self.ints, self.strs, self.maxrows = ints, strs, maxrows
        self.alias_n = 0

    def database(self):
        db = {}
        for t, cols in self.tables.items():
            n = self.r.choice([0, 1, 2, 3, self.maxrows])
            rows = []
            for _ in range(n):
                rows.append([self.r.choice(self.ints) if ty == INT else self.r.choice(self.strs)
                             for _, ty in cols])
            # duplicates on purpose
            if rows and self.r.random() < 0.3:
                rows.append(list(rows[0]))
            db[t] = rows
        return db

    def alias(self):
        self.alias_n += 1
        return f"x{self.alias_n}"

    # --- expressions over a scope: list of (alias, col, type); outer: enclosing scope or None
    def cols(self, scope, ty):
        return [c for c in scope if c[2] == ty]

    def int_expr(self, scope, outer, d):
        r = self.r
        cs = self.cols(scope, INT)
        p = r.random()
        if d <= 0 or p < 0.45:
            if cs and r.random() < 0.75:
                a, c, _ = r.choice(cs)
                return ("col", a, c, INT)
            if outer and self.cols(outer, INT) and r.random() < 0.3:
                a, c, _ = r.choice(self.cols(outer, INT))
                return ("col", a, c, INT)
            return ("ci", r.choice([0, 1, 2, 3]))
        if self.f.get("udf") and p > 0.7 and r.random() < 0.5:
            # a call of a SQL function: by definition the body with the arguments in the place of $1, $2
            fn = r.choice(sorted(FUNCS))
            args = tuple(self.int_expr(scope, outer, d - 1) for _ in range(FUNCS[fn][0]))
            return ("udf", fn, ("lst",) + args + (INT,), INT)
        if p < 0.8:
            ops = ["+", "-", "*", "/", "+", "-"] + (["%"] if self.f["mod"] else [])
            op = r.choice(ops)
            rhs = self.int_expr(scope, outer, d - 1)
            if op == "%" and self.f["mod"] == "const":
                rhs = ("ci", r.choice([1, 2, 3]))
            if op == "/" and not self.f["const_pred"] and not has_col(rhs):
                # a constant divisor is never (an expression folding to) zero: `x / 0` folds to an
                # untyped NULL that later operators reject (known finding F27)
                rhs = ("ci", r.choice([1, 2, 3]))
            return ("bin", op, self.int_expr(scope, outer, d - 1), rhs, INT)
        if p < 0.9 and self.f["case"]:
            k = r.random()
            if k < 0.6:
                return ("case", self.bool_expr(scope, outer, d - 1), self.int_expr(scope, outer, d - 1),
                        self.int_expr(scope, outer, d - 1), INT)
            if k < 0.8:      # CASE WHEN .. THEN .. WHEN .. THEN .. [ELSE ..] END
                arms = [(self.bool_expr(scope, outer, d - 1), self.int_expr(scope, outer, 0)) for _ in range(2)]
                els = self.int_expr(scope, outer, 0) if r.random() < 0.7 else None
                return ("casen", arms, els, INT)
            # CASE x WHEN v THEN .. END
            arms = [(("ci", r.choice([0, 1, 2, 3])), self.int_expr(scope, outer, 0)) for _ in range(r.choice([1, 2]))]
            els = self.int_expr(scope, outer, 0) if r.random() < 0.7 else None
            return ("caseop", self.int_expr(scope, outer, 0), arms, els, INT)
        if p < 0.95 and self.f["neg"]:
            return ("neg", self.int_expr(scope, outer, d - 1), INT)
        if self.f["null_lit"]:
            return ("cn", INT)
        return ("ci", r.choice([0, 1, 2]))

    def str_expr(self, scope, outer, d):
        r = self.r
        cs = self.cols(scope, STR)
        if cs and r.random() < 0.7:
            a, c, _ = r.choice(cs)
            return ("col", a, c, STR)
        if d > 0 and cs and r.random() < 0.3 and self.f["strcat"]:
            return ("bin", "||", self.str_expr(scope, outer, d - 1), ("cs", r.choice(["a", "b", ""])), STR)
        return ("cs", r.choice(["", "a", "b", "ab"]))

    def bool_expr(self, scope, outer, d, allow_sub=False):
        r = self.r
        p = r.random()
        if d <= 0 or p < 0.4:
            if self.cols(scope, STR) and r.random() < 0.2:
                op = r.choice(["=", "<>", "<", ">="])
                lhs = self.str_expr(scope, outer, 0)
                if not self.f["const_pred"] and not has_col(lhs):
                    a, c, _ = r.choice(self.cols(scope, STR))
                    lhs = ("col", a, c, STR)
                return ("bin", op, lhs, self.str_expr(scope, outer, 0), BOOL)
            op = r.choice(["=", "<>", "<", "<=", ">", ">=", "=", "="])
            lhs = self.int_expr(scope, outer, d - 1)
            if not self.f["const_pred"] and not has_col(lhs) and self.cols(scope, INT):
                a, c, _ = r.choice(self.cols(scope, INT))
                lhs = ("col", a, c, INT)
            return ("bin", op, lhs, self.int_expr(scope, outer, d - 1), BOOL)
        if p < 0.6 and self.f["nested_bool"]:
            return ("bin", r.choice(["and", "or"]), self.bool_expr(scope, outer, d - 1, allow_sub),
                    self.bool_expr(scope, outer, d - 1), BOOL)
        if p < 0.68 and self.f["nested_bool"]:
            return ("not", self.bool_expr(scope, outer, d - 1), BOOL)
        if p < 0.78:
            e = self.int_expr(scope, outer, 0) if r.random() < 0.7 or not self.cols(scope, STR) \
                else self.str_expr(scope, outer, 0)
            return ("isnull", e, r.random() < 0.4, BOOL)
        if p < 0.86:
            vals = [r.choice([0, 1, 2, 3, None] if self.f["inl_null"] else [0, 1, 2, 3])
                    for _ in range(r.choice([1, 2, 3]))]
            lhs = self.int_expr(scope, outer, 0)
            if not self.f["const_pred"] and not has_col(lhs) and self.cols(scope, INT):
                a, c, _ = r.choice(self.cols(scope, INT))
                lhs = ("col", a, c, INT)
            neg = r.random() < 0.35
            if self.f.get("inx", True) and self.cols(scope, INT) and r.random() < 0.3:
                # a list whose members are columns (and constants)
                mem = [("col", a, c, INT) for a, c, _ in [r.choice(self.cols(scope, INT)) for _ in range(r.choice([1, 2]))]]
                if r.random() < 0.5:
                    mem.insert(r.randrange(len(mem) + 1), ("ci", r.choice([0, 1, 2, 3])))
                return ("inx", lhs, ("lst",) + tuple(mem) + (INT,), neg, BOOL)
            return ("inl", lhs, vals, neg, BOOL)
        if p < 0.9 and self.cols(scope, STR) and self.f["like"]:
            a, c, _ = r.choice(self.cols(scope, STR))
            e = ("bin", "like", ("col", a, c, STR), ("cs", r.choice(["a%", "%b", "_", "%", "a_", ""])), BOOL)
            return ("nlike", e, BOOL) if r.random() < 0.3 else e
        if p < 0.94 and self.f.get("between", True) and self.cols(scope, INT):
            a, c, _ = r.choice(self.cols(scope, INT))
            lo = self.int_expr(scope, outer, 0)
            hi = self.int_expr(scope, outer, 0)
            return ("between", ("col", a, c, INT), lo, hi, r.random() < 0.3, BOOL)
        if allow_sub and self.subq:
            return self.sub_pred(scope, outer)
        lhs = self.int_expr(scope, outer, 0)
        if not self.f["const_pred"] and not has_col(lhs) and self.cols(scope, INT):
            a, c, _ = r.choice(self.cols(scope, INT))
            lhs = ("col", a, c, INT)
        return ("bin", "=", lhs, self.int_expr(scope, outer, 0), BOOL)

    def sub_pred(self, scope, outer):
        r = self.r
        t = r.choice(list(self.tables))
        al = self.alias()
        sscope = [(al, c, ty) for c, ty in self.tables[t]]
        where = None
        if r.random() < 0.6:
            # correlated or local predicate
            where = self.bool_expr(sscope, None if self.f["sub_top_only"] else scope, 1)
        kinds = self.f["subq"]
        k = {"in": 0.2, "exists": 0.6, "scalar": 0.9}[r.choice(kinds)]
        if self.f["sub_top_only"]:
            if 0.45 <= k < 0.8:
                # EXISTS: correlate by an equality between an inner and an outer column
                ic = r.choice([c for c in sscope if c[2] == INT])
                oc = r.choice(self.cols(scope, INT))
                # mostly an equality (hash semi / anti join), sometimes an inequality (nested-loop semi / anti join)
                cop = r.choice(["=", "=", "=", "<", ">"])
                corr = ("bin", cop, ("col", ic[0], ic[1], INT), ("col", oc[0], oc[1], INT), BOOL)
                where = corr if where is None or r.random() < 0.5 else ("bin", "and", corr, where, BOOL)
            else:
                # IN / scalar: uncorrelated
                where = self.bool_expr(sscope, None, 1) if r.random() < 0.5 else None
        if k < 0.45:
            sub = dict(sel=[(("col", al, r.choice([c for c in sscope if c[2] == INT])[1], INT), "s1")],
                       frm=("t", t, al), where=where, grp=[], hav=None, agg=False, dist=False, ord=[], lim=-1, off=0)
            return ("insub", self.int_expr(scope, outer, 0), sub, r.random() < 0.4 and self.f["not_in_sub"], BOOL)
        if k < 0.8:
            sub = dict(sel=[(("ci", 1), "s1")], frm=("t", t, al), where=where, grp=[], hav=None, agg=False,
                       dist=False, ord=[], lim=-1, off=0)
            return ("exists", sub, r.random() < 0.4 and self.f.get("not_exists", self.f["not_in_sub"]), BOOL)
        f = r.choice(["max", "min", "count", "sum"])
        if self.f["sub_top_only"]:
            where = self.bool_expr(sscope, None, 1) if r.random() < 0.5 else None
        col = r.choice([c for c in sscope if c[2] == INT])
        sub = dict(sel=[(("agg", f, ("col", al, col[1], INT), INT), "s1")], frm=("t", t, al), where=where,
                   grp=[], hav=None, agg=True, dist=False, ord=[], lim=-1, off=0)
        lhs = self.int_expr(scope, outer, 0)
        if not self.f["const_pred"] and not has_col(lhs):
            a, c, _ = r.choice(self.cols(scope, INT))
            lhs = ("col", a, c, INT)
        return ("bin", r.choice(["=", "<", ">="]), lhs, ("scalar", sub, INT), BOOL)

    # --- FROM
    def table_item(self):
        """A base table or (feature `derived`) a derived table `(select ...) as x`: projections, computed columns
        that cannot be simplified to a bare column (finding F32), filters, DISTINCT, grouped aggregates."""
        r = self.r
        t = r.choice(list(self.tables))
        a = self.alias()
        if r.random() >= self.f.get("derived", 0.0):
            return ("t", t, a), [(a, c, ty) for c, ty in self.tables[t]]
        ia = self.alias()
        iscope = [(ia, c, ty) for c, ty in self.tables[t]]
        base = dict(frm=("t", t, ia), where=None, grp=[], hav=None, agg=False, dist=False, ord=[], lim=-1, off=0)
        ints = self.cols(iscope, INT)
        if r.random() < 0.3:
            g = r.choice(ints)
            gcol = ("col", g[0], g[1], INT)
            other = r.choice(ints)
            if other == g and len(ints) > 1:
                other = r.choice([c for c in ints if c != g])
            # (count(col), not count(*), and never an aggregate of the grouping column itself: an outer aggregate
            # f(x.d1) over a derived table that passes d1 = e through and also computes f(e) -- count(*) and count(*),
            # count(b) and count(b) -- is the same expression node as the inner one and returns its value: recorded
            # finding Q13)
            sel = [(gcol, "d1", INT), (("agg", "count", ("col", other[0], other[1], INT), INT), "d2", INT),
                   (("agg", r.choice(["sum", "min", "max"]), ("col", other[0], other[1], INT), INT), "d3", INT)]
            sub = dict(base, sel=[(e, n) for e, n, _ in sel], grp=[gcol], agg=True)
        else:
            sel = []
            for k in range(r.choice([2, 3])):
                c = r.choice(iscope)
                e = ("col", c[0], c[1], c[2])
                if c[2] == INT and r.random() < 0.4:
                    e = ("bin", r.choice(["+", "*"]), e, ("ci", r.choice([2, 3])), INT) if r.random() < 0.6 else \
                        ("bin", "+", e, ("col", ints[0][0], ints[0][1], INT), INT)
                sel.append((e, f"d{k + 1}", c[2]))
            if not any(ty == INT for _, _, ty in sel):
                c = r.choice(ints)
                sel.append((("col", c[0], c[1], INT), f"d{len(sel) + 1}", INT))
            # DISTINCT only over plain columns: a filter above a DISTINCT derived table with a computed column
            # prunes that column away below the projection that still needs it (recorded finding F33)
            plain = all(e[0] == "col" for e, _, _ in sel)
            sub = dict(base, sel=[(e, n) for e, n, _ in sel], dist=plain and r.random() < 0.25)
            if r.random() < 0.4:
                sub["where"] = self.bool_expr(iscope, None, 1)
            # (no ORDER BY inside generated derived tables: below a join + aggregation the sort keys that nothing else
            # uses are pruned away under the Order node -- recorded finding F34; ordered derived tables are covered by
            # the directed families of lib/planfam.py and of C12, where every column is used)
        cols = [(n, ty) for _, n, ty in sel]
        return ("sub", sub, a, cols), [(a, n, ty) for n, ty in cols]

    def from_clause(self):
        r = self.r
        names = list(self.tables)
        frm, scope = self.table_item()
        if not self.joins:
            return frm, scope
        n = r.choice([0, 0, 1, 1, 1, 2])
        for _ in range(n):
            item2, s2 = self.table_item()
            a2 = s2[0][0]
            jt = r.choice(self.f["jts"])
            if jt == "cross":
                on = None
            else:
                l = r.choice(self.cols(scope, INT))
                rr = r.choice(self.cols(s2, INT))
                on = ("bin", "=", ("col", l[0], l[1], INT), ("col", rr[0], rr[1], INT), BOOL)
                shape = r.choice(self.f["on"])
                if shape == "eq+":
                    on = ("bin", "and", on, self.bool_expr(scope + s2, None, 0), BOOL)
                elif shape == "any":
                    on = self.bool_expr(scope + s2, None, 1)
            frm = ("join", jt, frm, item2, on)
            scope = scope + s2
        return frm, scope

    # --- a whole query
    def query(self, allow_limit=True):
        r = self.r
        frm, scope = self.from_clause()
        q = dict(frm=frm, where=None, grp=[], hav=None, agg=False, dist=False, ord=[], lim=-1, off=0)
        outer_join = has_outer_join(frm)
        if r.random() < 0.65:
            if self.f["sub_top_only"]:
                q["where"] = self.bool_expr(scope, None, 2, allow_sub=False)
                if self.subq and not outer_join and r.random() < 0.3:
                    q["where"] = ("bin", "and", self.sub_pred(scope, None), q["where"], BOOL)
            else:
                q["where"] = self.bool_expr(scope, None, 2, allow_sub=True)
        if r.random() < 0.35:
            q["agg"] = True
            ng = r.choice([0, 1, 1, 2])
            grp = []
            for _ in range(ng):
                if r.random() < 0.8 or not self.f["group_expr"]:
                    a, c, ty = r.choice(scope)
                    e = ("col", a, c, ty)
                else:
                    ge = self.int_expr(scope, None, 0)
                    if not has_col(ge):
                        a, c, _ = r.choice(self.cols(scope, INT))
                        ge = ("col", a, c, INT)
                    e = ("bin", "+", ge, ("ci", 1), INT)
                if e not in grp:
                    grp.append(e)
            q["grp"] = grp
            sel = list(grp) if r.random() < 0.8 else []
            for _ in range(r.choice([1, 1, 2])):
                sel.append(self.agg_expr(scope))
            r.shuffle(sel)
            q["sel"] = [(e, f"c{i + 1}") for i, e in enumerate(sel)]
            if r.random() < 0.3 and self.f["having"]:
                ae = self.agg_expr(scope)
                rhs = ("ci", r.choice([0, 1, 2])) if etype(ae) == INT else ("cs", r.choice(["a", "b"]))
                q["hav"] = ("bin", r.choice([">", "=", "<=", ">="]), ae, rhs, BOOL)
        else:
            sel = []
            for _ in range(r.choice([1, 2, 2, 3])):
                k = r.random()
                if k < 0.6:
                    sel.append(self.int_expr(scope, None, 2))
                elif (k < 0.8 or not self.f["sel_bool"]) and self.cols(scope, STR):
                    sel.append(self.str_expr(scope, None, 1))
                elif self.f["sel_bool"]:
                    sel.append(self.bool_expr(scope, None, 1))
                else:
                    sel.append(self.int_expr(scope, None, 1))
            if self.f["sel_needs_col"] and not any(has_col(e) for e in sel):
                a, c, ty = r.choice(scope)
                sel.append(("col", a, c, ty))
            q["sel"] = [(e, f"c{i + 1}") for i, e in enumerate(sel)]
            q["dist"] = r.random() < 0.15 and self.f["distinct"]
        if self.f["touch_all"]:
            used = set()
            for e, _ in q["sel"]:
                aliases_of(e, used)
            n = len(q["sel"])
            for al in sorted({a for a, _, _ in scope} - used):
                col = [c for c in scope if c[0] == al][0]
                ref = ("col", col[0], col[1], col[2])
                n += 1
                q["sel"].append((("agg", "count", ref, INT) if q["agg"] else ref, f"c{n}"))
        if r.random() < 0.4 and self.f["order"]:
            idx = [i for i in range(len(q["sel"])) if self.f["order_const"] or has_col(q["sel"][i][0])]
            if q["dist"] and not self.f["distinct_order"]:
                idx = []
            r.shuffle(idx)
            q["ord"] = [(i, r.choice(["asc", "asc", "desc"])) for i in idx[:r.choice([1, 1, 2])]]
            if not idx:
                q["ord"] = []
        if allow_limit and r.random() < 0.25 and self.f["limit"]:
            q["lim"] = r.choice([0, 1, 2, 3, -1])
            q["off"] = r.choice([0, 0, 1, 2]) if q["lim"] >= 0 or r.random() < 0.3 else 0
        return q

    def agg_expr(self, scope):
        r = self.r
        f = r.choice(["count*", "count", "sum", "min", "max", "count", "sum"] + (["countd"] if self.f["countd"] else []))
        if f == "count*":
            return ("agg", f, None, INT)
        if f in ("min", "max") and self.cols(scope, STR) and r.random() < 0.25 and self.f["agg_str"]:
            e = self.str_expr(scope, None, 0)
            if not self.f["agg_const"] and not has_col(e):
                a, c, _ = r.choice(self.cols(scope, STR))
                e = ("col", a, c, STR)
            return ("agg", f, e, STR)
        e = self.int_expr(scope, None, 1)
        if not self.f["agg_const"] and not has_col(e):
            a, c, _ = r.choice(self.cols(scope, INT))
            e = ("col", a, c, INT)
        return ("agg", f, e, INT)


def desugar(e):
    """BETWEEN, NOT LIKE and the multi-branch CASE forms in terms of the core operators (the definitions of the
    SQL standard): the semantics are given for the core."""
    k = e[0]
    if k == "between":
        x, lo, hi, neg = e[1], e[2], e[3], e[4]
        core = ("bin", "and", ("bin", ">=", x, lo, BOOL), ("bin", "<=", x, hi, BOOL), BOOL)
        return ("not", core, BOOL) if neg else core
    if k == "nlike":
        return ("not", e[1], BOOL)
    if k == "udf":
        return FUNCS[e[1]][2](*e[2][1:-1])
    if k == "casen":
        out = e[2] if e[2] is not None else ("cn", INT)
        for c, v in reversed(e[1]):
            out = ("case", c, v, out, INT)
        return out
    if k == "caseop":
        out = e[3] if e[3] is not None else ("cn", INT)
        for w, v in reversed(e[2]):
            out = ("case", ("bin", "=", e[1], w, BOOL), v, out, INT)
        return out
    return e


SUGAR = ("between", "nlike", "casen", "caseop", "udf")


def has_col(e):
    if not isinstance(e, tuple):
        return False
    if e[0] in SUGAR:
        return has_col(desugar(e))
    if e[0] == "col":
        return True
    return any(has_col(x) for x in e[1:] if isinstance(x, tuple))


def has_outer_join(f):
    if f[0] in ("t", "sub"):
        return False
    return f[1] in ("left", "right", "full") or has_outer_join(f[2]) or has_outer_join(f[3])


def aliases_of(e, acc):
    if isinstance(e, tuple) and e[0] in SUGAR:
        return aliases_of(desugar(e), acc)
    if isinstance(e, tuple):
        if e[0] == "col":
            acc.add(e[1])
        for x in e[1:]:
            if isinstance(x, tuple):
                aliases_of(x, acc)
            elif isinstance(x, dict):
                for se, _ in x["sel"]:
                    aliases_of(se, acc)
                if x["where"] is not None:
                    aliases_of(x["where"], acc)


def aliases_from_on(f, acc):
    if f[0] == "join":
        if f[4] is not None:
            aliases_of(f[4], acc)
        aliases_from_on(f[2], acc)
        aliases_from_on(f[3], acc)


def etype(e):
    k = e[0]
    if k == "ci":
        return INT
    if k == "cs":
        return STR
    if k == "cb":
        return BOOL
    if k == "cn":
        return e[1]
    return e[-1]


# ----------------------------------------------------------------------------- SQL rendering
def sql_expr(e):
    k = e[0]
    if k == "col":
        return f"{e[1]}.{e[2]}"
    if k == "ci":
        return lit(e[1])
    if k == "cs":
        return lit(e[1])
    if k == "cb":
        return lit(e[1])
    if k == "cn":
        return "NULL"
    if k == "bin":
        op = e[1]
        return f"({sql_expr(e[2])} {op} {sql_expr(e[3])})"
    if k == "not":
        return f"(not {sql_expr(e[1])})"
    if k == "neg":
        return f"(- {sql_expr(e[1])})"
    if k == "udf":
        return f"{e[1]}({', '.join(sql_expr(x) for x in e[2][1:-1])})"
    if k == "castb":
        return f"cast({sql_expr(e[1])} as boolean)"
    if k == "widen":            # an integer of another width: the same value
        return f"cast({sql_expr(e[1])} as {e[2]})"
    if k == "isnull":
        return f"({sql_expr(e[1])} is {'not ' if e[2] else ''}null)"
    if k == "case":
        return f"(case when {sql_expr(e[1])} then {sql_expr(e[2])} else {sql_expr(e[3])} end)"
    if k == "between":
        return f"({sql_expr(e[1])} {'not ' if e[4] else ''}between {sql_expr(e[2])} and {sql_expr(e[3])})"
    if k == "nlike":
        return f"({sql_expr(e[1][2])} not like {sql_expr(e[1][3])})"
    if k == "casen":
        arms = " ".join(f"when {sql_expr(c)} then {sql_expr(v)}" for c, v in e[1])
        return f"(case {arms}{' else ' + sql_expr(e[2]) if e[2] is not None else ''} end)"
    if k == "caseop":
        arms = " ".join(f"when {sql_expr(w)} then {sql_expr(v)}" for w, v in e[2])
        return f"(case {sql_expr(e[1])} {arms}{' else ' + sql_expr(e[3]) if e[3] is not None else ''} end)"
    if k == "inl":
        return f"({sql_expr(e[1])} {'not ' if e[3] else ''}in ({', '.join(lit(v) for v in e[2])}))"
    if k == "inx":
        return f"({sql_expr(e[1])} {'not ' if e[3] else ''}in ({', '.join(sql_expr(x) for x in e[2][1:-1])}))"
    if k == "insub":
        return f"({sql_expr(e[1])} {'not ' if e[3] else ''}in ({sql_query(e[2])}))"
    if k == "exists":
        return f"({'not ' if e[2] else ''}exists ({sql_query(e[1])}))"
    if k == "scalar":
        return f"({sql_query(e[1])})"
    if k == "agg":
        f = e[1]
        if f == "count*":
            return "count(*)"
        if f == "countd":
            return f"count(distinct {sql_expr(e[2])})"
        return f"{f}({sql_expr(e[2])})"
    raise ValueError(e)


def sql_from(f):
    if f[0] == "t":
        return f"{f[1]} as {f[2]}"
    if f[0] == "sub":
        return f"({sql_query(f[1])}) as {f[2]}"
    _, jt, l, r, on = f
    if jt == "cross":
        return f"{sql_from(l)} cross join {sql_from(r)}"
    kw = {"inner": "join", "left": "left join", "right": "right join", "full": "full join"}[jt]
    return f"{sql_from(l)} {kw} {sql_from(r)} on {sql_expr(on)}"


def derived_items(f, acc):
    if f[0] == "sub":
        acc.append(f)
    elif f[0] == "join":
        derived_items(f[2], acc)
        derived_items(f[3], acc)


def sql_query_cte(q):
    """The same query with its derived tables hoisted into a WITH clause (each CTE is referenced once:
    a CTE referenced twice is the recorded finding Q12)."""
    items = []
    derived_items(q["frm"], items)
    if not items:
        return sql_query(q)
    names = {id(it): f"w{k + 1}" for k, it in enumerate(items)}

    def frm(f):
        if f[0] == "t":
            return f"{f[1]} as {f[2]}"
        if f[0] == "sub":
            return f"{names[id(f)]} as {f[2]}"
        _, jt, l, r, on = f
        if jt == "cross":
            return f"{frm(l)} cross join {frm(r)}"
        kw = {"inner": "join", "left": "left join", "right": "right join", "full": "full join"}[jt]
        return f"{frm(l)} {kw} {frm(r)} on {sql_expr(on)}"
    body = sql_query(dict(q, frm=("t", "__FROM__", "__F__")))
    body = body.replace("__FROM__ as __F__", frm(q["frm"]))
    return "with " + ", ".join(f"{names[id(it)]} as ({sql_query(it[1])})" for it in items) + " " + body


def sql_query_views(q, prefix="v"):
    """The same query with its derived tables (at every depth of the FROM clauses) created as views; two derived
    tables with the same text share one view: -> (CREATE VIEW statements in dependency order, query text)."""
    creates, names = [], {}

    def render(qq):
        def frm(f):
            if f[0] == "t":
                return f"{f[1]} as {f[2]}"
            if f[0] == "sub":
                inner = render(f[1])
                key = (inner, tuple(n for n, _ in f[3]))
                if key not in names:
                    names[key] = f"{prefix}{len(names) + 1}"
                    creates.append(f"create view {names[key]}({', '.join(key[1])}) as {inner}")
                return f"{names[key]} as {f[2]}"
            _, jt, l, r, on = f
            if jt == "cross":
                return f"{frm(l)} cross join {frm(r)}"
            kw = {"inner": "join", "left": "left join", "right": "right join", "full": "full join"}[jt]
            return f"{frm(l)} {kw} {frm(r)} on {sql_expr(on)}"
        body = sql_query(dict(qq, frm=("t", "__FROM__", "__F__")))
        return body.replace("__FROM__ as __F__", frm(qq["frm"]))
    return creates, render(q)


def sql_query(q):
    s = "select " + ("distinct " if q["dist"] else "")
    s += ", ".join(f"{sql_expr(e)} as {a}" for e, a in q["sel"])
    s += " from " + sql_from(q["frm"])
    if q["where"] is not None:
        s += " where " + sql_expr(q["where"])
    if q["grp"]:
        s += " group by " + ", ".join(sql_expr(e) for e in q["grp"])
    if q["hav"] is not None:
        s += " having " + sql_expr(q["hav"])
    if q["ord"]:
        s += " order by " + ", ".join(f"{q['sel'][i][1]} {d}" for i, d in q["ord"])
    if q["lim"] >= 0:
        s += f" limit {q['lim']}"
    if q["off"] > 0:
        s += f" offset {q['off']}"
    return s


# ----------------------------------------------------------------------------- resolution for TLA+
def from_scope(f, tables):
    if f[0] == "t":
        return [(f[2], c) for c, _ in tables[f[1]]]
    if f[0] == "sub":
        return [(f[2], n) for n, _ in f[3]]
    return from_scope(f[2], tables) + from_scope(f[3], tables)


def res_expr(e, scopes, tables):
    """scopes: list of scopes, innermost first; each a list of (alias, col)."""
    k = e[0]
    if k in SUGAR:
        return res_expr(desugar(e), scopes, tables)
    if k == "col":
        for d, sc in enumerate(scopes):
            if (e[1], e[2]) in sc:
                return ["c", d, sc.index((e[1], e[2])) + 1]
        raise KeyError(e)
    if k in ("ci", "cs", "cb"):
        return ["k", enc(e[1])]
    if k == "cn":
        return ["k", enc(None)]
    if k == "bin":
        return [e[1], res_expr(e[2], scopes, tables), res_expr(e[3], scopes, tables)]
    if k == "not":
        return ["not", res_expr(e[1], scopes, tables)]
    if k == "neg":
        return ["neg", res_expr(e[1], scopes, tables)]
    if k == "castb":
        return ["castb", res_expr(e[1], scopes, tables)]
    if k == "widen":
        return res_expr(e[1], scopes, tables)
    if k == "isnull":
        return ["notnull" if e[2] else "isnull", res_expr(e[1], scopes, tables)]
    if k == "case":
        return ["case"] + [res_expr(x, scopes, tables) for x in e[1:4]]
    if k == "inl":
        return ["in", res_expr(e[1], scopes, tables), [enc(v) for v in e[2]], bool(e[3])]
    if k == "inx":
        return ["inx", res_expr(e[1], scopes, tables), [res_expr(x, scopes, tables) for x in e[2][1:-1]], bool(e[3])]
    if k == "insub":
        return ["insub", res_expr(e[1], scopes, tables), res_query(e[2], scopes, tables), bool(e[3])]
    if k == "exists":
        return ["exists", res_query(e[1], scopes, tables), bool(e[2])]
    if k == "scalar":
        return ["scalar", res_query(e[1], scopes, tables)]
    if k == "agg":
        if e[1] == "count*":
            return ["agg", "count*", ["k", enc(1)]]
        return ["agg", e[1], res_expr(e[2], scopes, tables)]
    raise ValueError(e)


def res_from(f, outer_scopes, tables):
    if f[0] == "t":
        return ["t", f[1], len(tables[f[1]])]
    if f[0] == "sub":
        return ["sub", res_query(f[1], [], tables), len(f[3])]
    _, jt, l, r, on = f
    sl, sr = from_scope(l, tables), from_scope(r, tables)
    on_r = ["k", enc(True)] if on is None else res_expr(on, [sl + sr] + outer_scopes, tables)
    return ["join", jt, res_from(l, outer_scopes, tables), res_from(r, outer_scopes, tables), on_r,
            len(sl), len(sr)]


def res_query(q, outer_scopes, tables):
    sc = from_scope(q["frm"], tables)
    scopes = [sc] + outer_scopes
    true = ["k", enc(True)]
    return {"sel": [res_expr(e, scopes, tables) for e, _ in q["sel"]],
            "from": res_from(q["frm"], outer_scopes, tables),
            "where": true if q["where"] is None else res_expr(q["where"], scopes, tables),
            "grp": [res_expr(e, scopes, tables) for e in q["grp"]],
            "hav": true if q["hav"] is None else res_expr(q["hav"], scopes, tables),
            "agg": bool(q["agg"]), "dist": bool(q["dist"]),
            "ord": [[i + 1, d] for i, d in q["ord"]], "lim": q["lim"], "off": q["off"]}


def enc_db(db):
    return {t: [[enc(v) for v in row] for row in rows] for t, rows in db.items()}


# ----------------------------------------------------------------------------- DDL / DML text
def setup_sql(db, tables, pk=None, notnull=(), coltypes=None):
    """coltypes: {(table, column): 'bigint' | 'smallint'} -- integer columns of another width (the values, and so
    the prescribed answers, are the same)"""
    out = []
    for t, cols in tables.items():
        defs = []
        for c, ty in cols:
            d = f"{c} {(coltypes or {}).get((t, c), 'int') if ty == INT else 'varchar'}"
            if pk and pk.get(t) == c:
                d += " primary key"
            defs.append(d)
        out.append(f"create table {t}({', '.join(defs)})")
    for t, rows in db.items():
        if rows:
            out.append(f"insert into {t} values " + ", ".join("(" + ", ".join(lit(v) for v in r) + ")" for r in rows))
    return out


# ----------------------------------------------------------------------------- SQLite cross-check
def sqlite_rows(db, tables, sql, views=()):
    con = sqlite3.connect(":memory:")
    for t, cols in tables.items():
        con.execute(f"create table {t}({', '.join(c + (' integer' if ty == INT else ' text') for c, ty in cols)})")
        for r in db.get(t, []):
            con.execute(f"insert into {t} values ({', '.join('?' for _ in r)})", r)
    # the SQL functions of FUNCS, written out independently of their bodies
    strict = lambda f: (lambda *a: None if any(x is None for x in a) else f(*a))
    con.create_function("f_add", 2, strict(lambda a, b: a + b))
    con.create_function("f_inc", 1, strict(lambda a: a + 1))
    con.create_function("f_max", 2, lambda a, b: a if (a is not None and b is not None and a > b) else b)
    con.create_function("f_nz", 1, lambda a: 0 if a is None else a)
    try:
        import re
        for vsql in views:
            con.execute(vsql.replace(" true", " 1").replace(" false", " 0"))
        s2 = sql.replace(" true", " 1").replace(" false", " 0")
        s2 = re.sub(r"(?<!limit \d) offset (\d+)$", r" limit -1 offset \1", s2) if " limit " not in s2.rsplit(")", 1)[-1] else s2
        cur = con.execute(s2)
        return [list(r) for r in cur.fetchall()]
    except sqlite3.Error as e:
        return ("error", str(e))
    finally:
        con.close()
