"""C19: values of every type compare, hash and print coherently (Values.tla)."""
import json, os, random, re, time
from common import *

# per type: SQL column type, representatives as (SQL literal, class index); equal index = equal value
REPS = {
    "smallint": ("smallint", [("(-7)", 1), ("0", 2), ("0", 2), ("5", 3), ("32767", 4)]),
    "int": ("int", [("(-2147483648)", 1), ("(-1)", 2), ("0", 3), ("0", 3), ("42", 4), ("2147483647", 5)]),
    "bigint": ("bigint", [("(-9223372036854775807)", 1), ("0", 2), ("3000000000", 3), ("3000000000", 3), ("9223372036854775807", 4)]),
    # (-0.0 and 0.0 are one value)
    "double": ("double", [("(-1.5)", 1), ("0.0", 2), ("0.25", 3), ("0.25", 3), ("1000000.5", 4)]),
    "decimal": ("decimal(18,4)", [("(-2.5)", 1), ("0", 2), ("1.0", 3), ("1.00", 3), ("1.5", 4), ("10", 5)]),
    "bool": ("boolean", [("false", 1), ("false", 1), ("true", 2)]),
    "varchar": ("varchar", [("''", 1), ("'B'", 2), ("'a'", 3), ("'a'", 3), ("'ab'", 4), ("'b'", 5)]),
    "date": ("date", [("date '1999-12-31'", 1), ("date '2000-02-29'", 2), ("date '2000-02-29'", 2), ("date '2000-03-01'", 3),
                      ("date '2024-01-01'", 4)]),
    # field-wise (months, days, milliseconds): 30 days < 1 month; 12 months and 1 year are the same value
    # bytes compare bytewise; a quote and a backslash inside a blob
    "blob": ("blob", [("''", 1), ("'\\x00ff'", 2), ("'a''b'", 3), ("'a\\b'", 4), ("'abc'", 5), ("'abc'", 5), ("'\\xAA'", 6)]),
    # (a sub-day part of 24 hours or more stays in the milliseconds field: 30 hours < 1 day field-wise)
    "interval": ("interval", [("cast('-25 hours' as interval)", 1), ("cast('6 hours' as interval)", 2),
                              ("cast('30 hours' as interval)", 3), ("interval '1' day", 4),
                              ("cast('1 day 47 hours 59 minutes' as interval)", 5), ("interval '30' day", 6),
                              ("interval '1' month", 7), ("interval '1' year", 8), ("interval '12' month", 8),
                              ("interval '1' day", 4)]),
}


def check_c19(args):
    t0 = time.time()
    seed, tier = seed_tier(args)
    build()
    v = Verdict("C19")
    rnd = random.Random(seed * 3 + 11)
    runs, metas = [], []
    for ty, (sqlty, reps) in REPS.items():
        for variant in range(4 if tier == "thorough" else 2):
            rows = list(reps)
            rnd.shuffle(rows)
            rows = rows[: rnd.choice([len(rows), len(rows), max(2, len(rows) - 1)])]
            n = len(rows)
            half = max(1, n // 2)
            ins = lambda tab, part, off: f"insert into {tab} values " + ", ".join(f"({off + i + 1}, {lit})" for i, (lit, _) in enumerate(part))
            extra = []
            if ty == "double" and any(lit == "0.0" for lit, _ in rows):
                # negative zero can only be computed (unary minus on a stored zero): the same value as 0.0
                k0 = [i for i, (lit, _) in enumerate(rows) if lit == "0.0"][0] + 1
                extra = [{"sql": f"insert into v select {n + 1}, -x from v where k = {k0}"}]
                rows = rows + [("-0.0 (computed)", 2)]
            for eng in ("mem", "disk"):
                steps = [{"sql": f"create table v(k int, x {sqlty})"},
                         {"sql": ins("v", rows[:half], 0)}, {"sql": ins("v", [r for r in rows[half:] if not r[0].endswith("(computed)")], half)}] + extra + [

                         {"sql": "select k, x from v", "tag": "show"},
                         {"sql": "select a.k, b.k, a.x < b.x, a.x = b.x, a.x <= b.x from v as a cross join v as b", "tag": "cmp"},
                         {"sql": "select k from v order by x", "tag": "order"},
                         {"sql": "select count(*) from v group by x", "tag": "groups"},
                         {"sql": "select distinct x from v", "tag": "distinct"},
                         {"sql": "select a.k, b.k from v as a join v as b on a.x = b.x", "tag": "join"},
                         {"sql": "select min(x), max(x) from v", "tag": "minmax"}]
                if eng == "disk":
                    steps += [{"sql": f"create table p(x {sqlty} primary key, k int)"},
                              {"sql": "insert into p select x, k from v where k > %d" % half},
                              {"sql": "insert into p select x, k from v where k <= %d" % half},
                              {"sql": "select k, x from p", "tag": "pk"}]
                steps += [{"sql": "pragma disable_optimizer"},
                          {"sql": "select a.k, b.k, a.x < b.x, a.x = b.x, a.x <= b.x from v as a cross join v as b", "tag": "cmp_off"},
                          {"sql": "select a.k, b.k from v as a join v as b on a.x = b.x", "tag": "join_off"},
                          {"sql": "pragma enable_optimizer"}]
                runs.append({"id": f"{ty}.{variant}.{eng}", "engine": eng, "opts": {"block": 4096}, "steps": steps})
                metas.append((ty, sqlty, rows))
    outs = run_sharded("sql", runs, tag="c19", timeout=1800, case_timeout=60)
    # second phase: print -> parse needs the displayed text of each value
    runs2, metas2 = [], []
    first = {}
    for run, (ty, sqlty, rows), out in zip(runs, metas, outs):
        if out.get("hang") or "fatal" in out:
            raise ToolError(str(out))
        res = {st.get("tag"): r for st, r in zip(run["steps"], out["res"]) if "tag" in st}
        first[run["id"]] = res
        show = res["show"]
        if not show["ok"]:
            continue
        disp = {}
        for row in show["rows"]:
            k = row[0][1]
            val = row[1]
            disp[k] = val
        nset = next(i for i, st in enumerate(run["steps"]) if st.get("tag") == "show")
        steps = list(run["steps"][:nset]) + [{"sql": f"create table w(k int, x {sqlty})"}]
        for k, val in sorted(disp.items()):
            if val[0] == "n":
                continue
            text = val[1] if val[0] == "x" else ("".join(chr(c) for c in val[1]) if val[0] == "s" else
                                                  (("true" if val[1] else "false") if val[0] == "b" else str(val[1])))
            steps.append({"sql": f"insert into w values ({k}, '" + text.replace("'", "''") + "')", "tag": f"parse{k}"})
        steps.append({"sql": "select w.k, count(*) from w join v on w.x = v.x group by w.k", "tag": "back"})
        runs2.append({"id": run["id"], "engine": run["engine"], "opts": {"block": 4096}, "steps": steps})
        metas2.append((ty, rows))
    outs2 = run_sharded("sql", runs2, tag="c19b", timeout=1800, case_timeout=60)
    second = {}
    for run, out in zip(runs2, outs2):
        if out.get("hang") or "fatal" in out:
            raise ToolError(str(out))
        second[run["id"]] = {st.get("tag"): r for st, r in zip(run["steps"], out["res"]) if "tag" in st}
    # ---- records for TLC
    recs, info = [], {}
    uses_run = 0
    for run, (ty, sqlty, rows) in zip(runs, metas):
        rid = run["id"]
        res, res2 = first[rid], second.get(rid, {})
        cls = [c for _, c in rows]
        n = len(cls)
        rec = {"id": rid, "cls": cls, "has": {}}
        failed = {}

        def rowsof(tag, src=None):
            r = (src or res).get(tag)
            if r is None:
                return None
            if not r["ok"]:
                failed[tag] = r.get("err", "")[:120]
                return None
            return [[c[1] for c in row] for row in r["rows"]]
        for tag in ("cmp", "cmp_off"):
            x = rowsof(tag)
            rec["has"][tag] = x is not None
            rec[tag] = [{"i": a, "j": b, "lt": bool(l), "eq": bool(e), "le": bool(le)} for a, b, l, e, le in (x or [])
                        if l is not None and e is not None and le is not None] if x is not None else []
        x = rowsof("order"); rec["has"]["order"] = x is not None; rec["order"] = [r[0] for r in (x or [])]
        g, d = rowsof("groups"), rowsof("distinct")
        rec["has"]["group"] = g is not None and d is not None
        rec["groups"] = [r[0] for r in (g or [])]; rec["distinct"] = len(d or [])
        for tag in ("join", "join_off"):
            x = rowsof(tag); rec["has"][tag] = x is not None; rec[tag] = x or []
        mm = res.get("minmax")
        rec["has"]["minmax"] = False
        rec["minrow"], rec["maxrow"] = 1, 1
        if mm and mm["ok"] and res["show"]["ok"]:
            byval = {json.dumps(row[1]): row[0][1] for row in res["show"]["rows"]}
            lo, hi = json.dumps(mm["rows"][0][0]), json.dumps(mm["rows"][0][1])
            if lo in byval and hi in byval:
                rec["has"]["minmax"] = True
                rec["minrow"], rec["maxrow"] = byval[lo], byval[hi]
            else:
                v.violation({"type": ty, "rows": rows, "minmax": mm["rows"], "engine": run["engine"]},
                            f"[{run['engine']}] MIN/MAX over {ty} returns a value that is not in the table: {mm['rows']}")
        elif mm and not mm["ok"]:
            failed["minmax"] = mm.get("err", "")[:120]
        x = rowsof("pk") if run["engine"] == "disk" else None
        rec["has"]["pk"] = x is not None and len(x) == n
        rec["pk"] = [r[0] for r in (x or [])]
        b = rowsof("back", res2) if res2 else None
        parse_fail = {t: r.get("err", "")[:100] for t, r in res2.items() if t.startswith("parse") and not r["ok"]}
        rec["has"]["print"] = b is not None and not parse_fail
        back = {r[0]: r[1] for r in (b or [])}
        rec["back"] = [back.get(k, 0) for k in range(1, n + 1)]
        if parse_fail:
            v.violation({"type": ty, "rows": rows, "errors": parse_fail, "engine": run["engine"]},
                        f"[{run['engine']}] a printed {ty} value cannot be parsed back: {parse_fail}")
        for tag, errm in failed.items():
            if tag == "pk":
                continue                      # not every type can be a primary key: not a coherence question
            v.violation({"type": ty, "rows": rows, "use": tag, "error": errm, "engine": run["engine"]},
                        f"[{run['engine']}] use `{tag}` of {ty} values fails: {errm}")
        uses_run += sum(1 for x in rec["has"].values() if x)
        recs.append(rec)
        info[rid] = (ty, rows, res, run["engine"])
    p = os.path.join(WORK, f"val-{os.getpid()}.ndjson")
    with open(p, "w") as f:
        for r in recs:
            f.write(json.dumps(r) + "\n")
    r = tlc(os.path.join(SPEC, "Values.tla"), os.path.join(SPEC, "mc", "Values.cfg"), workers=1, timeout=1800,
            env={"OBS": p}, tag=f"val-{os.getpid()}")
    os.remove(p)
    got = 0
    for line in r["out"].replace("\n", " ").split('<<"VAL"')[1:]:
        m = re.match(r', "([^"]+)", \[(.*?)\]>>', line.strip())
        if not m:
            continue
        got += 1
        ty, rows, res, eng = info[m.group(1)]
        for use, ok in re.findall(r"(\w+) \|-> (TRUE|FALSE)", m.group(2)):
            if ok == "FALSE":
                tag = {"group": "groups", "print": "show"}.get(use, use)
                v.violation({"type": ty, "rows": rows, "use": use, "engine": eng,
                             "observed": (res.get(tag) or {}).get("rows")},
                            f"[{eng}] {ty}: use `{use}` disagrees with the order of the values {rows}")
    if got != len(recs):
        log(r["out"][-3000:])
        raise ToolError(f"Values.tla: {got}/{len(recs)} verdicts")
    rc = v.finish()
    write_evidence("C19", tier, seed, "exploration", {
        "evaluations": uses_run, "distinct_nontrivial": len(recs),
        "rule": "for each type (smallint, int, bigint, double, decimal, boolean, varchar, date) a hand-written table of "
                "representatives with their equivalence class (equal decimals of different scale, duplicates, extremes, "
                "'' and case in strings, leap day); shuffled sub-bags are stored in a table and every use of equality / "
                "order is run on both engines: <, =, <= matrix (optimizer on and off), ORDER BY, GROUP BY sizes, DISTINCT, "
                "join on equality (hash and nested-loop), MIN/MAX, primary-key scan order on disk, print -> parse via a "
                "string literal; TLC decides with Values.tla whether each use agrees with the single preorder",
        "samples": [{"type": metas[0][0], "rows": metas[0][2]}], "known_findings_seen": sorted(v.seen_known)},
        ["the laws are checked on the representatives of the table only, not over the value space of a type",
         "NaN, -0.0, intervals, timestamps, blobs and vectors are not in the table"], time.time() - t0, len(v.violations))
    return rc
