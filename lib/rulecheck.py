"""C01, per-rule half: every expression rewrite rule of src/planner/rules/expr.rs is instantiated
(pattern variables := columns that hold NULLs, constants around the rule's side condition, compound
expressions) and the instance is evaluated through the real optimizer in filter position, negated filter
position and projection position; SqlObs.tla decides the rows."""
import itertools, os, random, re
import sqlgen as G
from sqlgen import INT, BOOL

RULES_SRC = "/repo/src/planner/rules/expr.rs"
CMP = ("=", "<>", "<", ">", "<=", ">=")
ARITH = ("+", "-", "*", "/", "%")
ROWS = [[None, None, "a"], [None, 1, "b"], [1, None, ""], [0, 0, "a"], [1, 1, "b"], [1, 2, "ab"], [2, 1, None],
        [2, 2, "a"], [3, 0, "b"], [0, 3, ""], [2, 3, "a"], [3, 3, "ab"]]


def parse_rules(path=RULES_SRC):
    text = "\n".join(l for l in open(path).read().splitlines() if not l.strip().startswith("//"))
    out = []
    for m in re.finditer(r'rw!\(\s*"([^"]+)"\s*;\s*"([^"]+)"\s*=>\s*"([^"]+)"((?:\s*if\s+\w+\([^)]*\))*)', text):
        name, lhs, rhs, conds = m.groups()
        cvars = re.findall(r'"\?(\w+)"', conds)
        out.append({"name": name, "lhs": lhs, "rhs": rhs, "cond": conds.split(), "cvars": cvars})
    return out


def sexp(s):
    toks = s.replace("(", " ( ").replace(")", " ) ").split()

    def rd(i):
        if toks[i] == "(":
            lst, i = [], i + 1
            while i < len(toks) and toks[i] != ")":
                x, i = rd(i)
                lst.append(x)
            return lst, i + 1
        return toks[i], i + 1
    return rd(0)[0]


class Unsupported(Exception):
    pass


def infer(p, want, types):
    """Type every pattern variable (INT / BOOL) from its positions."""
    if isinstance(p, str):
        if p.startswith("?"):
            if types.get(p, want) != want and want is not None:
                raise Unsupported("variable used at two types")
            if want is not None:
                types[p] = want
            else:
                types.setdefault(p, None)
        return
    op, args = p[0], p[1:]
    if op in ARITH and len(args) == 2:
        for a in args:
            infer(a, INT, types)
    elif op == "-" and len(args) == 1:
        infer(args[0], INT, types)
    elif op in CMP:
        for a in args:
            infer(a, INT, types)
    elif op in ("and", "or"):
        for a in args:
            infer(a, BOOL, types)
    elif op == "not":
        infer(args[0], BOOL, types)
    elif op == "if":
        infer(args[0], BOOL, types)
        infer(args[1], INT, types)
        infer(args[2], INT, types)
    elif op == "isnull":
        infer(args[0], INT, types)
    else:
        raise Unsupported(op)


def build(p, sub):
    if isinstance(p, str):
        if p.startswith("?"):
            return sub[p]
        if p in ("true", "false"):
            return ("cb", p == "true")
        if p == "null":
            return ("cn", INT)
        if re.fullmatch(r"-?\d+", p):
            return ("ci", int(p))
        raise Unsupported(p)
    op, args = p[0], [build(a, sub) for a in p[1:]]
    if op == "-" and len(args) == 1:
        return ("neg", args[0], INT)
    if op in ARITH:
        return ("bin", op, args[0], args[1], INT)
    if op in CMP or op in ("and", "or"):
        return ("bin", op, args[0], args[1], BOOL)
    if op == "not":
        return ("not", args[0], BOOL)
    if op == "if":
        return ("case", args[0], args[1], args[2], INT)
    if op == "isnull":
        return ("isnull", args[0], False, BOOL)
    raise Unsupported(op)


def ptype(p):
    if isinstance(p, str):
        return BOOL if p in ("true", "false") else INT
    return BOOL if p[0] in CMP + ("and", "or", "not", "isnull") else INT


A = ("col", "x1", "a", INT)
B = ("col", "x1", "b", INT)
INT_POOL = [A, B, ("ci", 1), ("ci", 2), ("ci", 0), ("bin", "+", A, ("ci", 1), INT), ("ci", 3)]
BOOL_POOL = [("bin", ">", A, ("ci", 1), BOOL), ("isnull", B, False, BOOL), ("bin", "=", A, B, BOOL),
             ("bin", "<=", B, ("ci", 1), BOOL), ("cb", True), ("cb", False)]
CONSTS = [("ci", 1), ("ci", 2)]


def const_divisor_zero(e):
    """a constant divisor that folds to zero is the recorded finding F27 (untyped NULL), not generated"""
    if not isinstance(e, tuple):
        return False
    if e[0] == "bin" and e[1] in ("/", "%") and not G.has_col(e[3]):
        return True        # any constant-only divisor is avoided (it may fold to 0)
    return any(const_divisor_zero(x) for x in e[1:] if isinstance(x, tuple))


def instances(rule, rnd, per_rule):
    pat = sexp(rule["lhs"])
    types = {}
    infer(pat, ptype(pat), types)
    vs = sorted(types)
    cv = ["?" + v for v in rule["cvars"] if "?" + v in types]
    subs = []
    # side-condition variables: every combination of the constants 1, 2 (covers <, =, >), zero for is_not_zero
    cpool = CONSTS + ([("ci", 0), A] if any("zero" in c for c in rule["cond"]) else [])
    ccombos = list(itertools.product(cpool, repeat=len(cv))) if cv else [()]
    others = [v for v in vs if v not in cv]
    for cc in ccombos:
        k = max(2, per_rule // len(ccombos))
        seen = set()
        for _ in range(k * 3):
            sub = dict(zip(cv, cc))
            for v in others:
                pool = BOOL_POOL if types[v] == BOOL else INT_POOL
                sub[v] = pool[0] if not seen and v == others[0] else rnd.choice(pool[:4] if rnd.random() < 0.7 else pool)
            key = repr(sorted(sub.items()))
            if key in seen:
                continue
            seen.add(key)
            subs.append(sub)
            if len(seen) >= k:
                break
    out = []
    for sub in subs:
        e = build(pat, sub)
        if const_divisor_zero(e):
            continue
        if not G.has_col(e):
            continue          # constant-only instances fold in the binder, nothing to compare
        out.append((sub, e))
    return out, ptype(pat)


def rule_cases(seed, tier):
    rnd = random.Random(seed * 31 + 7)
    per_rule = 40 if tier == "thorough" else 8
    db = {"t1": [list(r) for r in ROWS], "t2": [], "t3": []}
    cases, skipped = [], []
    base = dict(frm=("t", "t1", "x1"), grp=[], hav=None, agg=False, dist=False, ord=[], lim=-1, off=0)
    ida = [(A, "c1"), (B, "c2"), (("col", "x1", "c", G.STR), "c3")]
    rules = parse_rules()
    for rule in rules:
        try:
            inst, ty = instances(rule, rnd, per_rule)
        except Unsupported as u:
            skipped.append(f"{rule['name']} ({u})")
            continue
        for sub, e in inst:
            qs = []
            if ty == BOOL:
                qs.append(("filter", dict(base, sel=ida, where=e)))
                qs.append(("negated filter", dict(base, sel=ida, where=("not", e, BOOL))))
                qs.append(("projection", dict(base, sel=ida + [(e, "c4")], where=None)))
            else:
                qs.append(("projection", dict(base, sel=ida + [(e, "c4")], where=None)))
                qs.append(("filter", dict(base, sel=ida, where=("bin", ">", e, ("ci", 1), BOOL))))
            for pos, q in qs:
                cases.append({"db": db, "q": q, "sql": G.sql_query(q), "pk": False, "rule": rule["name"],
                              "position": pos, "instance": G.sql_expr(e)})
    return cases, [r["name"] for r in rules], skipped
