"""C20: CSV export followed by import reproduces the table (Csv.tla)."""
import json, os, random, re, time
from common import *
import sqlgen as G

TYPES = {"int": ("int", lambda r: r.choice([None, 0, 7, -12, 2147483647, -2147483648])),
         "bigint": ("bigint", lambda r: r.choice([None, 0, 9000000000, -1])),
         "bool": ("boolean", lambda r: r.choice([None, True, False])),
         "varchar": ("varchar", lambda r: r.choice([None, "", "a", "a,b", 'say "hi"', "two\nlines", "x|y", "';", " lead", "NULL",
                                                         # the default quote character inside fields that another QUOTE / DELIMITER
                                                         # option forces to be quoted, and the other way round
                                                         'say "hi", then', "it's \"q\"", 'a"~b;c', "~tilde~", '"']))}
OPTS = [("", 44, 34, False), ("( DELIMITER '|' )", 124, 34, False), ("( HEADER )", 44, 34, True),
        ("( DELIMITER ';', HEADER )", 59, 34, True), ("( QUOTE '''' )", 44, 39, False)]


def enc(v):
    if v is None:
        return ["n", 0]
    if isinstance(v, bool):
        return ["b", int(v)]
    if isinstance(v, int):
        return ["i", v]
    return ["s", [ord(c) for c in v]]


def check_c20(args):
    t0 = time.time()
    seed, tier = seed_tier(args)
    build()
    v = Verdict("C20")
    # ---- M1: the transducer model round-trips every small table (ideal reading)
    r = tlc(os.path.join(SPEC, "CsvMC.tla"), os.path.join(SPEC, "mc", "CsvMC.cfg"), workers=4, timeout=900)
    if not r["ok"]:
        log(r["out"][-3000:])
        raise ToolError("Csv.tla: model check failed")
    # ---- cases
    rnd = random.Random(seed * 13 + 5)
    n = 400 if tier == "thorough" else 60
    cases, runs = [], []
    for i in range(n):
        ncol = rnd.choice([1, 2, 3, 4])
        cols = [rnd.choice(list(TYPES)) for _ in range(ncol)]
        rows = [[TYPES[c][1](rnd) for c in cols] for _ in range(rnd.choice([0, 1, 2, 3, 5, 7]))]
        # every other table is filled by several INSERTs (the export then sees several chunks); in half of those the
        # rows without NULL come first, so that a column's first NULL appears in a later chunk
        parts = [rows]
        if i % 2 and len(rows) >= 2:
            if i % 4 == 1:
                rows.sort(key=lambda r2: any(x is None for x in r2))
            cut = sorted({rnd.randrange(1, len(rows)) for _ in range(rnd.choice([1, 2]))})
            parts = [rows[a:b] for a, b in zip([0] + cut, cut + [len(rows)])]
        # values outside TLC's 32-bit integers are kept as text cells in the record (rendering is the same)
        opt, delim, quote, header = OPTS[i % len(OPTS)]
        names = [f"c{k}" for k in range(ncol)]
        ddl = ", ".join(f"{nm} {TYPES[c][0]}" for nm, c in zip(names, cols))
        steps = [{"sql": f"create table t({ddl})"}, {"sql": f"create table u({ddl})"}]
        for part in parts:
            if part:
                steps.append({"sql": "insert into t values " + ", ".join("(" + ", ".join(G.lit(x) for x in r2) + ")" for r2 in part)})
        # the sequence in which a scan returns the rows of several INSERTs is the engine's business: it is observed
        # (the export is a scan of the same unchanged table), the rows themselves are the inserted ones
        steps += [{"sql": "select * from t"},
                  {"sql": f"copy t to '${{DIR}}/out.csv' {opt}"}, {"op": "readfile", "name": "out.csv"},
                  {"sql": f"copy u from '${{DIR}}/out.csv' {opt}"}, {"sql": "select * from u"}]
        for eng in ("mem", "disk"):
            runs.append({"id": f"{i}.{eng}", "engine": eng, "steps": steps})
        cases.append({"cols": cols, "rows": rows, "names": names, "delim": delim, "quote": quote, "header": header, "opt": opt})
    outs = run_sharded("sql", runs, tag="c20", timeout=1800, case_timeout=30)
    recs, meta = [], {}
    evals, nontriv = 0, set()
    for run, out in zip(runs, outs):
        i = int(run["id"].split(".")[0])
        c = cases[i]
        if out.get("hang") or "fatal" in out:
            raise ToolError(str(out))
        res = out["res"]
        info = {"columns": c["cols"], "rows": c["rows"], "options": c["opt"], "engine": run["engine"]}
        scan, exp, rd, imp, sel = res[-5], res[-4], res[-3], res[-2], res[-1]
        evals += 1
        if not scan["ok"] or sorted(json.dumps(r2) for r2 in scan["rows"]) != sorted(json.dumps([enc(x) for x in r2]) for r2 in c["rows"]):
            v.violation(dict(info, scan=scan), f"the table does not hold the inserted rows before the export: {str(scan)[:200]}")
            continue
        order = {}
        for k, r2 in enumerate(c["rows"]):
            order.setdefault(json.dumps([enc(x) for x in r2]), []).append(k)
        c = dict(c, rows=[c["rows"][order[json.dumps(r2)].pop(0)] for r2 in scan["rows"]])
        info["rows"] = c["rows"]
        if not exp["ok"] or not rd["ok"]:
            v.violation(dict(info, export=exp), f"COPY TO failed: {exp.get('err')}")
            continue
        big = any(isinstance(x, int) and not isinstance(x, bool) and abs(x) > 2000000000 for r2 in c["rows"] for x in r2)
        if not imp["ok"] or not sel["ok"]:
            v.violation(dict(info, file=bytes(rd["bytes"]).decode("latin1"), error=imp.get("err") or sel.get("err")),
                        f"COPY FROM of the exported file failed: {(imp.get('err') or sel.get('err'))[:150]} "
                        f"(columns {c['cols']}, rows {c['rows']}, options `{c['opt']}`)")
            continue
        rows_enc = [[enc(x) if not (isinstance(x, int) and not isinstance(x, bool) and abs(x) > 2000000000)
                     else ["s", [ord(ch) for ch in str(x)]] for x in r2] for r2 in c["rows"]]
        back = [[(cell if not (cell[0] == "i" and abs(cell[1]) > 2000000000) else ["s", [ord(ch) for ch in str(cell[1])]])
                 for cell in row] for row in sel["rows"]]
        rid = run["id"]
        recs.append({"id": rid, "rows": rows_enc, "names": [[ord(ch) for ch in nm] for nm in c["names"]],
                     "header": c["header"], "delim": c["delim"], "quote": c["quote"], "file": rd["bytes"], "back": back})
        meta[rid] = (info, rd["bytes"], sel["rows"])
        if c["rows"]:
            nontriv.add(json.dumps([c["cols"], c["rows"], c["opt"]]))
    p = os.path.join(WORK, f"csv-{os.getpid()}.ndjson")
    with open(p, "w") as f:
        for r2 in recs:
            f.write(json.dumps(r2) + "\n")
    r2 = tlc(os.path.join(SPEC, "CsvObs.tla"), os.path.join(SPEC, "mc", "CsvObs.cfg"), workers=1, timeout=1800,
             env={"OBS": p}, tag=f"csv-{os.getpid()}")
    os.remove(p)
    got = 0
    file_drift = 0
    for line in r2["out"].splitlines():
        m = re.match(r'<<"CSV", "([^"]+)", (TRUE|FALSE), (TRUE|FALSE), (TRUE|FALSE), (TRUE|FALSE), (TRUE|FALSE)>>', line)
        if not m:
            continue
        got += 1
        info, fbytes, backrows = meta[m.group(1)]
        file_ok, same, same_dev = (m.group(k) == "TRUE" for k in (2, 3, 4))
        if not file_ok:
            file_drift += 1          # conformance of the writer with the transducer model (not a verdict)
        if same:
            continue
        hdr, empty = m.group(5) == "TRUE", m.group(6) == "TRUE"
        if same_dev and (hdr or empty):
            if hdr and v.is_known("F26"):
                v.note_known("F26")
            if empty and v.is_known("F13"):
                v.note_known("F13")
            if (not hdr or v.is_known("F26")) and (not empty or v.is_known("F13")):
                continue
        v.violation(dict(info, file=bytes(fbytes).decode("latin1"), read_back=backrows),
                    f"table {info['rows']} ({info['columns']}, `{info['options']}`) comes back as {backrows[:4]}")
    if got != len(recs):
        log(r2["out"][-3000:])
        raise ToolError(f"CsvObs: {got}/{len(recs)} verdicts")
    rc = v.finish()
    write_evidence("C20", tier, seed, "model_checking", {
        "states": r["distinct"], "transitions": max(r["generated"], 1), "traces_validated_against_impl": len(recs),
        "evaluations": evals, "distinct_nontrivial": len(nontriv),
        "samples": [{"columns": cases[0]["cols"], "rows": cases[0]["rows"], "options": cases[0]["opt"]}],
        "rule": "M1: TLC checks that the transducer model of Csv.tla round-trips every table of <=2x2 cells over "
                "{NULL, 0, -12, '', 'a', ',', '\"', LF, 'a\",'}; E1/E2: random tables over int / bigint / boolean / varchar "
                "columns with NULL, '', delimiter, quote and newline characters are exported with COPY TO and imported "
                "with COPY FROM under five option sets on both engines; TLC compares the file bytes with the model's "
                "writer and the table read back with the original",
        "writer_differs_from_model": file_drift, "known_findings_seen": sorted(v.seen_known)},
        ["csv crate internals are not modelled beyond RFC 4180 quoting; dates, decimals, floats, blobs are not generated"],
        time.time() - t0, len(v.violations))
    return rc
