"""C17, catalog half: Catalog.tla enumerates every reachable catalog of tables and views and every DDL / DML
statement in it; each transition is replayed on the real database: the statement is accepted or refused as the
specification says, and afterwards every name is usable exactly as the specification's catalog says (a table
accepts SELECT / INSERT, a view accepts SELECT only, a free name nothing) -- and nothing panics."""
import os, random
from common import SPEC, ToolError, log, run_sharded, tlc, tlc_lines


def op_sql(o, k=0):
    n = "o" + o["n"] if "n" in o else None
    if o["op"] == "ct":
        return f"create table {n}(a int, b int)"
    if o["op"] == "cv":
        src = sorted(o["src"])
        if len(src) == 1:
            return f"create view {n}(a, b) as select a, b from o{src[0]}"
        return (f"create view {n}(a, b) as select p.a, q.b from o{src[0]} as p join o{src[1]} as q "
                f"on p.a = q.a")
    if o["op"] == "drop":
        what = ("table", "view")[k % 2]
        return f"drop {what} {'if exists ' if o['ifx'] else ''}" + ", ".join("o" + m for m in sorted(o["ns"]))
    if o["op"] == "sel":
        return f"select a, b from {n}"
    if o["op"] == "ins":
        return f"insert into {n} values (1, 2)"
    if o["op"] == "del":
        return f"delete from {n} where a = 1"
    raise ValueError(o)


def behaviours():
    r = tlc(os.path.join(SPEC, "Catalog.tla"), os.path.join(SPEC, "mc", "Catalog.cfg"), workers=1, timeout=900,
            extra=["-coverage", "1"])
    if not r["ok"]:
        log(r["out"][-3000:])
        raise ToolError("Catalog.tla: model check failed")
    bs = tlc_lines(r["out"], "B")
    if not bs:
        raise ToolError("Catalog.tla printed no behaviour")
    d = tlc(os.path.join(SPEC, "Catalog.tla"), os.path.join(SPEC, "mc", "Catalog_dev.cfg"), workers=1, timeout=900)
    if d["violated"] != "NoDangling":
        raise ToolError("Catalog.tla with Dev = {DanglingDrop} is not rejected: the model is vacuous")
    r["proof"] = prove_core()
    return bs, r


def prove_core():
    """spec/proofs/CatalogCore.tla: the same actions for any set of names with a TLAPS proof that NoDangling is
    inductive (what TLC checks for three names)."""
    from common import tlaps
    return tlaps("CatalogCore")


def catalog_part(seed, tier, v):
    bs, r = behaviours()
    rnd = random.Random(seed * 13 + 5)
    # distinct transitions (TLC prints one line per evaluated statement and catalog)
    uniq = {}
    for b in bs:
        uniq.setdefault(repr((b["path"], b["op"])), b)
    bs = list(uniq.values())
    rnd.shuffle(bs)
    nmem = len(bs) if tier == "thorough" else 900
    ndisk = 600 if tier == "thorough" else 60
    # accepted catalog changes first: they are the transitions of the catalog; refusals and uses fill the rest
    bs.sort(key=lambda b: 0 if (b["ok"] and b["op"]["op"] in ("ct", "cv", "drop")) else 1)
    names = sorted(bs[0]["after"])
    runs, plans = [], []
    for k, b in enumerate(bs[:nmem]):
        for eng in (("mem", "disk") if k < ndisk else ("mem",)):
            steps, plan = [], []
            for j, o in enumerate(b["path"]):
                steps.append({"sql": op_sql(o, j + k)}); plan.append(("path", o, True))
                if o["op"] == "ct":
                    # a row per table, so that views have something to show
                    steps.append({"sql": f"insert into o{o['n']} values (1, 2)"}); plan.append(("path", o, True))
            steps.append({"sql": op_sql(b["op"], k)}); plan.append(("op", b["op"], b["ok"]))
            for n in names:
                kd = b["after"][n]
                steps.append({"sql": f"select a, b from o{n}"}); plan.append(("probe", n, kd != "none"))
                steps.append({"sql": f"insert into o{n} values (1, 3)"}); plan.append(("probe", n, kd == "table"))
            # what the catalog lists about itself (before the probes' own INSERTs change nothing in it)
            steps.append({"sql": "select table_name, table_id from pg_catalog.pg_tables where schema_name = 'postgres'"})
            plan.append(("listing", sorted("o" + n for n in names if b["after"][n] != "none"), True))
            steps.append({"sql": "select count(*) from pg_catalog.pg_tables where schema_id = 1"})
            plan.append(("count", sum(1 for n in names if b["after"][n] != "none"), True))
            steps.append({"sql": "select column_name, table_name from pg_catalog.pg_attribute where schema_name = 'postgres'"})
            plan.append(("columns", sorted((c, "o" + n) for n in names if b["after"][n] != "none" for c in "ab"), True))
            runs.append({"id": f"cat{k}.{eng}", "engine": eng, "steps": steps})
            plans.append((b, plan))
    outs = run_sharded("sql", runs, tag="c17cat", timeout=3000, case_timeout=60)
    stats = {"behaviours": len(bs), "replayed": 0, "statements": 0, "accepted_changes": 0, "refusals": 0,
             "states": r["distinct"], "transitions": r["generated"], "tlaps": r["proof"]}
    for run, (b, plan), out in zip(runs, plans, outs):
        if out.get("hang") or "fatal" in out:
            v.violation({"case": run, "out": {k: out[k] for k in out if k != "res"}},
                        f"catalog behaviour {run['id']}: the process hung or died: {str(out.get('fatal'))[:200]}")
            continue
        stats["replayed"] += 1
        for (kind, what, want), st, res in zip(plan, run["steps"], out["res"]):
            stats["statements"] += 1
            if res.get("panic"):
                v.violation({"case": run, "at": st["sql"], "result": res},
                            f"[{run['engine']}] `{st['sql']}` after {[s['sql'] for s in run['steps'][:run['steps'].index(st)]][-4:]} "
                            f"panicked: {str(res.get('err'))[:160]}")
                break
            if kind == "listing" and res["ok"]:
                got = [("".join(chr(c) for c in row[0][1]), row[1][1]) for row in res["rows"]]
                if sorted(g[0] for g in got) != what or len({g[1] for g in got}) != len(got):
                    v.violation({"case": run, "at": st["sql"], "result": res, "expected": what},
                                f"[{run['engine']}] pg_tables lists {sorted(got)}, Catalog.tla says {what} (distinct ids)")
                    break
                continue
            if kind in ("count", "columns") and res["ok"]:
                txt = lambda cell: "".join(chr(c) for c in cell[1])
                got = res["rows"][0][0][1] if kind == "count" else sorted((txt(r[0]), txt(r[1])) for r in res["rows"])
                if got != what:
                    v.violation({"case": run, "at": st["sql"], "result": res, "expected": what},
                                f"[{run['engine']}] `{st['sql']}` returned {got}, Catalog.tla says {what}")
                    break
                continue
            if res["ok"] != want:
                v.violation({"case": run, "at": st["sql"], "result": res, "expected_ok": want},
                            f"[{run['engine']}] `{st['sql']}` was {'accepted' if res['ok'] else 'refused'}, "
                            f"Catalog.tla says {'accepted' if want else 'refused'} ({kind})")
                break
        if b["ok"] and b["op"]["op"] in ("ct", "cv", "drop"):
            stats["accepted_changes"] += 1
        elif not b["ok"]:
            stats["refusals"] += 1
    return stats
