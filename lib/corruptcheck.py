"""C18: corrupted column data is detected, not returned (Blocks.tla)."""
import json, os, random, re, time
from common import *

NROWS = 24
ROWS = [(i, None if i % 3 == 0 else i * 10, None if i % 4 == 0 else "v%d" % i) for i in range(1, NROWS + 1)]
VALS = ", ".join("(%d, %s, %s)" % (a, "null" if b is None else b, "null" if c is None else "'%s'" % c) for a, b, c in ROWS)
WANT_T = sorted(json.dumps([a, b, c]) for a, b, c in ROWS)
WANT_R = sorted(json.dumps([x]) for x in (2, 4, 515, 7, 9))
# d: few distinct values, two INSERTs, one compactor pass: its only row-set is written by the *compactor*, which picks
# dictionary / run-length encodings for such columns
DROWS = [(7, "k0") for i in range(60)]
WANT_D = sorted(json.dumps([a, b]) for a, b in DROWS)
TABLE_OF = {"0": "t", "1": "u", "2": "r", "3": "d"}
READ = {"t": "select a, b, c from t", "r": "select a from r", "d": "select a, s from d"}


def _varint(b, i):
    x = sh = 0
    while True:
        c = b[i]; i += 1
        x |= (c & 0x7f) << sh; sh += 7
        if c < 0x80:
            return x, i


def parse_index(b):
    """.idx = length-delimited BlockIndex messages + 24-byte footer (magic u32, count u64, cksum type i32, cksum u64)."""
    n = int.from_bytes(b[-20:-12], "big")
    i, out = 0, []
    for _ in range(n):
        ln, i = _varint(b, i)
        end = i + ln
        f = {}
        while i < end:
            tag, i = _varint(b, i)
            wt = tag & 7
            if wt == 0:
                val, i = _varint(b, i)
            elif wt == 2:
                l2, i = _varint(b, i); val = None; i += l2
            elif wt == 5:
                val = None; i += 4
            elif wt == 1:
                val = None; i += 8
            else:
                raise ToolError("index entry: unexpected wire type")
            f[tag >> 3] = val
        out.append((f.get(2, 0), f.get(3, 0)))
    return out


def column_layout(setup):
    """Dry run: block boundaries and block types of every column file, read from the real .idx / .col files."""
    case = {"id": "layout", "engine": "disk", "opts": {"block": 64, "checksum": True},
            "steps": setup + [{"op": "state"}]}
    out = run_sharded("sql", [case], shards=1, tag="c18-layout", timeout=300)[0]
    files = [f for f in out["res"][-1]["files"] if f.endswith(".col")]
    case["steps"] = setup + [{"op": "readfile", "name": "db/" + f[:-4] + e} for f in files for e in (".idx", ".col")]
    out = run_sharded("sql", [case], shards=1, tag="c18-layout", timeout=300)[0]
    res = out["res"][len(setup):]
    layout = {}
    for k, f in enumerate(files):
        idx, col = bytes(res[2 * k]["bytes"]), bytes(res[2 * k + 1]["bytes"])
        blocks = []
        for off, ln in parse_index(idx):
            ty = int.from_bytes(col[off + ln - 16: off + ln - 12], "big")
            blocks.append((off, ln, ty))
        if not blocks or blocks[-1][0] + blocks[-1][1] != len(col):
            raise ToolError(f"cannot parse the layout of {f}: {blocks} vs {len(col)} bytes")
        layout[f] = blocks
    return layout


def damage(rnd, col, blocks, which):
    """One alteration of block `which` (0 = first, -1 = last) of a column file."""
    off, ln, ty = blocks[which]
    end = off + ln
    k = rnd.random()
    if which == -1 and k < 0.15:
        return {"op": "corrupt", "path": col, "truncate": -rnd.choice([1, 3, 9, 17])}
    if k < 0.5:      # payload
        return {"op": "corrupt", "path": col, "pos": rnd.randrange(off, end - 16), "xor": rnd.choice([1, 4, 128, 255])}
    if k < 0.75:     # block type word: another valid type, or garbage in the high bytes
        if rnd.random() < 0.8:
            return {"op": "corrupt", "path": col, "pos": end - 13, "xor": ty ^ rnd.choice([x for x in range(19) if x != ty])}
        return {"op": "corrupt", "path": col, "pos": rnd.randrange(end - 16, end - 13), "xor": rnd.choice([1, 64])}
    # checksum type / checksum
    return {"op": "corrupt", "path": col, "pos": rnd.randrange(end - 12, end), "xor": rnd.choice([1, 2, 64, 255])}


def check_c18(args):
    t0 = time.time()
    seed, tier = seed_tier(args)
    build()
    v = Verdict("C18")
    big = tier == "thorough"
    # ---- M1: no fault / read order returns altered data (ideal reading = the repaired code)
    mc = tlc(os.path.join(SPEC, "Blocks.tla"), os.path.join(SPEC, "mc", "Blocks.cfg"), workers=4, timeout=900,
             extra=["-coverage", "1"])
    if not mc["ok"]:
        log(mc["out"][-3000:])
        raise ToolError("Blocks.tla: model check failed")
    # ---- E1: every fault/read sequence of the model, concretised
    g = tlc(os.path.join(SPEC, "BlocksMC.tla"), os.path.join(SPEC, "mc", "BlocksMC.cfg"), workers=1, timeout=900)
    seqs = tlc_lines(g["out"], "SEQ")
    if not seqs:
        log(g["out"][-2000:])
        raise ToolError("BlocksMC produced no sequences")
    rnd = random.Random(seed * 7 + 1)
    seqs = [s for s in seqs if any(e["a"].startswith("corrupt") for e in s)]
    rnd.shuffle(seqs)
    seqs = seqs[: (2000 if big else 150)]
    setup = [{"sql": "create table t(a int not null, b int, c varchar)"}, {"sql": "create table u(a int)"},
             {"sql": "create table r(a int not null)"},
             {"sql": f"insert into t values {VALS}"}, {"sql": "insert into u values (1), (2), (3)"},
             {"sql": "insert into r values (2), (4), (515), (7), (9)"},
             {"sql": "create table d(a int not null, s varchar)"},
             {"sql": "insert into d values " + ", ".join("(%d, '%s')" % r for r in DROWS[:30])},
             {"sql": "insert into d values " + ", ".join("(%d, '%s')" % r for r in DROWS[30:])},
             {"op": "compact"},
             {"op": "reopen"}]          # start with a cold cache
    NS = len(setup)
    layout = column_layout(setup)
    tcols = sorted(k for k in layout if TABLE_OF.get(k.split("_")[0]) == "t")
    runs, metas = [], []

    def add(steps, plan, table):
        runs.append({"id": str(len(runs)), "engine": "disk", "opts": {"block": 64, "checksum": True},
                     "steps": setup + steps, "table": table})
        metas.append(plan)

    for sq in seqs:
        steps, plan = [], []
        col = rnd.choice(tcols)
        for e in sq:
            if e["a"] == "corrupt":
                st = damage(rnd, col, layout[col], 0 if e["b"] == 1 else -1)
            elif e["a"] == "corrupt_idx":
                idx = col[:-4] + ".idx"
                st = {"op": "corrupt", "path": idx, "truncate": -rnd.choice([1, 4])} if rnd.random() < 0.25 else \
                    {"op": "corrupt", "path": idx, "pos": rnd.choice([0, 2, 5, -1, -3, -9]), "xor": rnd.choice([1, 16, 255])}
            elif e["a"] == "read":
                st = {"sql": READ["t"]}
            elif e["a"] == "read_other":
                st = {"sql": "select a from u"}
            else:
                st = {"op": "reopen"}
            steps.append(st)
            plan.append(e)
        add(steps, plan, "t")
    # ---- systematic sweep of the block footer with the model's sequence <corrupt, read, read>: every other
    # value of the block-type word (always), bits of its high bytes, of the checksum-type word and of the
    # checksum (sampled in the quick tier), for the first and the last block of every column of t and r
    sweep_type, sweep_rest = [], []
    for col, blocks in sorted(layout.items()):
        tab = TABLE_OF.get(col.split("_")[0])
        if tab not in READ:
            continue
        for bi in sorted({0, len(blocks) - 1}):
            off, ln, ty = blocks[bi]
            end = off + ln
            for t2 in range(0, 20):
                if t2 != ty:
                    sweep_type.append((tab, {"op": "corrupt", "path": col, "pos": end - 13, "xor": ty ^ t2}))
            if tab == "d":
                # payload of the compactor-written blocks (the model-driven part damages table t only)
                for pos in sorted({off, off + 1, off + (ln - 16) // 2, end - 17}):
                    sweep_type.append((tab, {"op": "corrupt", "path": col, "pos": pos, "xor": rnd.choice([1, 4, 128])}))
            for pos in range(end - 16, end - 13):
                sweep_rest.append((tab, {"op": "corrupt", "path": col, "pos": pos, "xor": 1}))
            for pos in range(end - 12, end):
                for m in (1, 2, 16, 128):
                    sweep_rest.append((tab, {"op": "corrupt", "path": col, "pos": pos, "xor": m}))
    if not big:
        rnd.shuffle(sweep_rest)
        sweep_rest = sweep_rest[:60]
    for tab, st in sweep_type + sweep_rest:
        rd = {"sql": READ[tab]}
        add([st, rd, rd], [{"a": "corrupt", "b": 0}, {"a": "read", "want": "any"}, {"a": "read", "want": "any"}], tab)
    outs = run_sharded("sql", runs, tag="c18", timeout=3000, case_timeout=60)
    reads, nontriv, drift, boot_fail = 0, set(), 0, 0
    for run, plan, out in zip(runs, metas, outs):
        if out.get("hang") or "fatal" in out:
            v.violation({"case": run, "result": out}, f"corruption sequence hangs or the database cannot be created: {out}")
            continue
        res = out["res"][NS:]
        info = {"sequence": [s for s in run["steps"][NS:]], "spec_sequence": plan}
        want_rows = {"t": WANT_T, "r": WANT_R, "d": WANT_D}[run["table"]]
        dead = False
        for e, st, r in zip(plan, run["steps"][NS:], res):
            if e["a"] == "reopen":
                if not r["ok"]:
                    dead = True
                    boot_fail += 1
                    if e["up"]:
                        # the model says the store opens (only data blocks are damaged): a failing boot hides
                        # the unaffected table as well
                        v.violation(dict(info, reopen=r), f"reopen fails although only column data blocks are damaged: {str(r.get('err'))[:120]}")
                        break
                continue
            if e["a"] == "read":
                reads += 1
                if r["ok"]:
                    got = sorted(json.dumps([None if c[0] == "n" else ("".join(map(chr, c[1])) if c[0] == "s" else c[1])
                                             for c in row]) for row in r["rows"])
                    if got != want_rows:
                        v.violation(dict(info, returned=r["rows"][:30]),
                                    f"altered data returned after {[s.get('op', 'read') + ':' + str(s.get('path', '')) for s in run['steps'][5:]]}: {got[:12]}")
                        break
                    outcome = "orig"
                elif r.get("panic"):
                    v.violation(dict(info, panic=r), f"reading damaged data panics instead of returning an error: {str(r.get('err'))[:120]}")
                    break
                else:
                    outcome = "err"
                    nontriv.add(json.dumps(info["sequence"]))
                if not dead and e["want"] != "any" and outcome != e["want"]:
                    drift += 1
            elif e["a"] == "read_other":
                if dead:
                    continue
                if not r["ok"] or sorted(c[0][1] for c in r["rows"]) != [1, 2, 3]:
                    v.violation(dict(info, other=r), f"the unaffected table is not readable: {str(r)[:150]}")
                    break
    rc = v.finish()
    write_evidence("C18", tier, seed, "fault_enumeration", {
        "evaluations": reads, "distinct_nontrivial": len(nontriv),
        "rule": "fault / read sequences = every behaviour of Blocks.tla with <=5 steps over {corrupt block 1, corrupt "
                "last block, corrupt index, read, read other table, reopen} (enumerated by TLC, with the outcome the "
                "model predicts per read); each is concretised to bit flips / byte overwrites / truncations at seeded "
                "positions (payload, block type, checksum type, checksum, index entry, footer) of the .col / .idx file "
                "of a 24-row, multi-block column with CRC32 on; every read must return an error or exactly the original "
                "rows; non-trivial = sequences in which a read hit the damage",
        "samples": [metas[0]], "model_states": mc["distinct"], "sequences": len(runs),
        "outcome_differs_from_model": drift, "boots_failed_on_damaged_index": boot_fail,
        "known_findings_seen": sorted(v.seen_known)},
        ["single alterations per step (one bit/byte or a truncation); CRC32 strength is not questioned",
         "a damaged index file makes the whole store unopenable (bootstrap returns the error): counted, and the model "
         "says so; reads after that are not judged"], time.time() - t0, len(v.violations))
    return rc
