"""C18: corrupted column data is detected, not returned (Blocks.tla)."""
import json, os, random, re, time
from common import *

ROWS = [(i, "v%d" % i) for i in range(1, 25)]


def check_c18(args):
    t0 = time.time()
    seed, tier = seed_tier(args)
    build()
    v = Verdict("C18")
    big = tier == "thorough"
    # ---- M1: no fault / read order returns altered data (ideal reading = the repaired code)
    mc = tlc(os.path.join(SPEC, "Blocks.tla"), os.path.join(SPEC, "mc", "Blocks.cfg"), workers=4, timeout=900,
             extra=["-coverage", "1"])
    if not mc["ok"]:
        log(mc["out"][-3000:])
        raise ToolError("Blocks.tla: model check failed")
    # ---- E1: every fault/read sequence of the model, concretised
    g = tlc(os.path.join(SPEC, "BlocksMC.tla"), os.path.join(SPEC, "mc", "BlocksMC.cfg"), workers=1, timeout=900)
    seqs = tlc_lines(g["out"], "SEQ")
    if not seqs:
        log(g["out"][-2000:])
        raise ToolError("BlocksMC produced no sequences")
    rnd = random.Random(seed * 7 + 1)
    seqs = [s for s in seqs if any(e["a"].startswith("corrupt") for e in s)]
    rnd.shuffle(seqs)
    seqs = seqs[: (2000 if big else 150)]
    vals = ", ".join(f"({a}, '{b}')" for a, b in ROWS)
    want_rows = sorted([a] for a, _ in ROWS)
    runs, metas = [], []
    for i, sq in enumerate(seqs):
        steps = [{"sql": "create table t(a int, b varchar)"}, {"sql": "create table u(a int)"},
                 {"sql": f"insert into t values {vals}"}, {"sql": "insert into u values (1), (2), (3)"},
                 {"op": "reopen"}]          # start with a cold cache
        plan = []
        for e in sq:
            if e["a"] == "corrupt":
                if e["b"] == 1:
                    st = {"op": "corrupt", "path": "0_0/0.col", "pos": rnd.choice([0, 1, 3, 7]), "xor": rnd.choice([1, 4, 128, 255])}
                else:
                    k = rnd.random()
                    if k < 0.2:
                        st = {"op": "corrupt", "path": "0_0/0.col", "truncate": -rnd.choice([1, 3, 9, 17])}
                    else:
                        st = {"op": "corrupt", "path": "0_0/0.col", "pos": -rnd.choice([1, 2, 8, 9, 12, 13, 16, 17, 20, 25]),
                              "xor": rnd.choice([1, 2, 64, 255])}
            elif e["a"] == "corrupt_idx":
                k = rnd.random()
                st = {"op": "corrupt", "path": "0_0/0.idx", "truncate": -rnd.choice([1, 4])} if k < 0.25 else \
                    {"op": "corrupt", "path": "0_0/0.idx", "pos": rnd.choice([0, 2, 5, -1, -3, -9]), "xor": rnd.choice([1, 16, 255])}
            elif e["a"] == "read":
                st = {"sql": "select a from t"}
            elif e["a"] == "read_other":
                st = {"sql": "select a from u"}
            else:
                st = {"op": "reopen"}
            steps.append(st)
            plan.append(e)
        runs.append({"id": str(i), "engine": "disk", "opts": {"block": 64, "checksum": True}, "steps": steps})
        metas.append(plan)
    outs = run_sharded("sql", runs, tag="c18", timeout=3000, case_timeout=60)
    reads, nontriv, drift, boot_fail = 0, set(), 0, 0
    for run, plan, out in zip(runs, metas, outs):
        if out.get("hang") or "fatal" in out:
            v.violation({"case": run, "result": out}, f"corruption sequence hangs or the database cannot be created: {out}")
            continue
        res = out["res"][5:]
        info = {"sequence": [s for s in run["steps"][5:]], "spec_sequence": plan}
        dead = False
        for e, st, r in zip(plan, run["steps"][5:], res):
            if e["a"] == "reopen":
                if not r["ok"]:
                    dead = True
                    boot_fail += 1
                    if e["up"]:
                        # the model says the store opens (only data blocks are damaged): a failing boot hides
                        # the unaffected table as well
                        v.violation(dict(info, reopen=r), f"reopen fails although only column data blocks are damaged: {str(r.get('err'))[:120]}")
                        break
                continue
            if e["a"] == "read":
                reads += 1
                if r["ok"]:
                    got = sorted([c[1] for c in row] for row in r["rows"])
                    if got != want_rows:
                        v.violation(dict(info, returned=r["rows"][:30]),
                                    f"altered data returned after {[s.get('op', 'read') + ':' + str(s.get('path', '')) for s in run['steps'][5:]]}: {got[:12]}")
                        break
                    outcome = "orig"
                elif r.get("panic"):
                    v.violation(dict(info, panic=r), f"reading damaged data panics instead of returning an error: {str(r.get('err'))[:120]}")
                    break
                else:
                    outcome = "err"
                    nontriv.add(json.dumps(info["sequence"]))
                if not dead and outcome != e["want"]:
                    drift += 1
            elif e["a"] == "read_other":
                if dead:
                    continue
                if not r["ok"] or sorted(c[0][1] for c in r["rows"]) != [1, 2, 3]:
                    v.violation(dict(info, other=r), f"the unaffected table is not readable: {str(r)[:150]}")
                    break
    rc = v.finish()
    write_evidence("C18", tier, seed, "fault_enumeration", {
        "evaluations": reads, "distinct_nontrivial": len(nontriv),
        "rule": "fault / read sequences = every behaviour of Blocks.tla with <=5 steps over {corrupt block 1, corrupt "
                "last block, corrupt index, read, read other table, reopen} (enumerated by TLC, with the outcome the "
                "model predicts per read); each is concretised to bit flips / byte overwrites / truncations at seeded "
                "positions (payload, block type, checksum type, checksum, index entry, footer) of the .col / .idx file "
                "of a 24-row, multi-block column with CRC32 on; every read must return an error or exactly the original "
                "rows; non-trivial = sequences in which a read hit the damage",
        "samples": [metas[0]], "model_states": mc["distinct"], "sequences": len(runs),
        "outcome_differs_from_model": drift, "boots_failed_on_damaged_index": boot_fail,
        "known_findings_seen": sorted(v.seen_known)},
        ["single alterations per step (one bit/byte or a truncation); CRC32 strength is not questioned",
         "a damaged index file makes the whole store unopenable (bootstrap returns the error): counted, and the model "
         "says so; reads after that are not judged"], time.time() - t0, len(v.violations))
    return rc
