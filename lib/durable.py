"""C03, C04, C07: Durable.tla -- model checking, history replay, crash-point replay."""
import json, os, random, time
from common import *

SPECF = os.path.join(SPEC, "Durable.tla")
MCF = os.path.join(SPEC, "DurableMC.tla")

KNOWN_DEV = {"SharedIdCounter": "F8"}     # deviation name -> known-finding id


def cfg_text(consts, invariants=(), spec="Spec", view=None):
    lines = [f"SPECIFICATION {spec}", "CONSTANTS"]
    for k, v in consts.items():
        lines.append(f"  {k} = {v}")
    if invariants:
        lines.append("INVARIANTS " + " ".join(invariants))
    if view:
        lines.append(f"VIEW {view}")
    lines.append("CHECK_DEADLOCK FALSE")
    return "\n".join(lines) + "\n"


def write_cfg(name, text):
    ensure_dirs()
    d = os.path.join(WORK, "cfg")
    os.makedirs(d, exist_ok=True)
    p = os.path.join(d, name + ".cfg")
    open(p, "w").write(text)
    return p


def tla_set(xs):
    return "{" + ", ".join('"%s"' % x for x in xs) + "}"


def consts(names=("a", "b"), stmts=4, boots=2, rows=3, crash=False, views=True, dev=()):
    return {"Names": tla_set(names), "MaxStmts": stmts, "MaxBoots": boots, "MaxRows": rows,
            "CrashOn": "TRUE" if crash else "FALSE", "AllowViews": "TRUE" if views else "FALSE",
            "Dev": tla_set(dev)}


IDEAL_INV = ["Consistent", "RecoverOk", "AtomicDurable", "NoSpuriousError", "IdsFresh", "ManifestSound"]
FAITH_INV = ["KConsistent", "KRecoverOk", "KAtomicDurable", "KNoSpuriousError"]


def model_check(pid, tier, known_devs, mc_runs):
    """M1: the design (Dev = {}) satisfies the invariants with crashes anywhere; the code as it is
    (Dev = known deviations) satisfies them up to the listed deviations."""
    big = tier == "thorough"
    runs = [
        ("ideal+crash", consts(stmts=5 if big else 4, boots=3 if big else 2, rows=3, crash=True,
                               views=True, dev=()), IDEAL_INV),
        ("faithful", consts(stmts=6 if big else 5, boots=3 if big else 2, rows=3, crash=False,
                            views=True, dev=known_devs), FAITH_INV),
    ]
    for name, c, inv in runs:
        cfg = write_cfg(f"{pid}-{name}", cfg_text(c, inv))
        r = tlc(SPECF, cfg, workers=8 if big else 4, extra=["-coverage", "1"], timeout=3000,
                xmx="8g" if big else "4g")
        if not r["ok"]:
            log(r["out"][-4000:])
            raise ToolError(f"Durable.tla {name}: TLC did not pass ({r['violated']}) -- the "
                            "specification itself is broken, not the code")
        never = [a for a, (d, g) in r["coverage"].items() if g == 0 and a[0].isupper()
                 and a not in inv and a not in ("Init",)]
        mc_runs.append({"config": name, "constants": c, "invariants": inv,
                        "distinct": r["distinct"], "generated": r["generated"],
                        "depth": r["depth"], "actions_never_taken": never,
                        "wall_s": round(r["wall_s"], 1)})
        if never and name == "ideal+crash":
            raise ToolError(f"vacuous model check: actions never taken {never}")


def two_tables_reopen_insert(h):
    """row-sets in two tables, a reopen, then more rows: ids of every kind are re-derived at boot from what survived"""
    ev = [e for e in h if e["a"] != "obs"]
    acts = [e["a"] for e in ev]
    if "shutdown" not in acts:
        return False
    k = acts.index("shutdown")
    return len({e["n"] for e in ev[:k] if e["a"] == "ins"}) >= 2 and any(e["a"] == "ins" for e in ev[k:])


def _acts(h):
    return [e["a"] for e in h if e["a"] != "obs"]


def _after(acts, x, y, n=1):
    """some x is followed by at least n y"""
    return any(a == x and acts[i + 1:].count(y) >= n for i, a in enumerate(acts))


def emptied_then_compacted(h):
    """a table with two row-sets is emptied by DELETE, a compaction pass runs over it (explicitly or at shutdown), and
    afterwards the table is written again or dropped, with a reopen in between or after"""
    ins = {}
    stage = 0
    for e in h:
        if e["a"] == "ins":
            ins[e["n"]] = ins.get(e["n"], 0) + 1
            if stage == 2:
                return True
        elif e["a"] == "obs" and stage == 0:
            if any(v["k"] == "table" and not v["rows"] and ins.get(n, 0) >= 2 for n, v in e["adb"].items()):
                stage = 1
        elif e["a"] in ("compact", "shutdown") and stage >= 1:
            stage = 2 if (stage == 1 and e["a"] == "shutdown") or stage == 2 else 1.5
        elif e["a"] == "dt" and stage >= 1.5:
            return any(x["a"] == "shutdown" for x in h[h.index(e):])
        if stage == 1.5 and e["a"] == "shutdown":
            stage = 2
    return False


STRATA = [
    emptied_then_compacted,
    lambda h: "dtx" in _acts(h),                                              # a refused DROP TABLE
    two_tables_reopen_insert,
    lambda h: _after(_acts(h), "dt", "shutdown", 2),                          # DROP, then two reopen cycles
    lambda h: _after(_acts(h), "dt", "ct") and _after(_acts(h), "ct", "shutdown") and _acts(h).count("ct") >= 3,
    lambda h: _after(_acts(h), "compact", "shutdown", 2) and "del" in _acts(h),   # compaction, then two reopen cycles
    lambda h: _after(_acts(h), "compact", "dt") and _after(_acts(h), "dt", "shutdown"),
    lambda h: _after(_acts(h), "del", "compact") and _after(_acts(h), "compact", "ins") and "shutdown" in _acts(h),
    lambda h: _after(_acts(h), "shutdown", "del") and _after(_acts(h), "del", "shutdown"),   # DELETE between two reopens
    # a DELETE, two reopen cycles (each shutdown runs a compaction pass), then new rows
    lambda h: _after(_acts(h), "del", "shutdown", 2) and "ins" in _acts(h)[len(_acts(h)) - _acts(h)[::-1].index("shutdown"):],
    lambda h: _after(_acts(h), "del", "dt") and _after(_acts(h), "dt", "shutdown") and _acts(h).count("ins") >= 2,
]


def score(h):
    """Prefer histories that chain the mechanisms: deletes before compaction, compaction before
    drop / reopen, several reopens."""
    acts = [e["a"] for e in h if e["a"] != "obs"]
    sc = len(set(acts) - {"cf", "dtx"})      # (catalog-only statements do not add to the variety that matters here)
    def after(x, y):
        return any(a == x and y in acts[i + 1:] for i, a in enumerate(acts))
    sc += 2 * after("del", "compact") + 2 * after("compact", "dt") + after("compact", "shutdown")
    sc += after("compact", "ins") + after("dt", "ct") + acts.count("shutdown")
    sc += 2 * (after("compact", "shutdown") and after("shutdown", "ins"))
    # (refused DROP TABLEs and two-table reopen histories have shares of their own in generate())
    return sc


def generate(pid, tier, seed, known_devs, stmts, boots, views, nmax, names=("a", "b")):
    """E1: behaviours of the same module (no crash: the harness enumerates crash points itself)."""
    c = consts(names=names, stmts=stmts, boots=boots, rows=3, crash=False, views=views, dev=known_devs)
    cfg = write_cfg(f"{pid}-gen", cfg_text(c, (), spec="MCSpec", view="MCView"))
    r = tlc(MCF, cfg, workers=1, timeout=3000, xmx="6g")
    if not r["completed"]:
        log(r["out"][-3000:])
        raise ToolError("history generation failed")
    hists = tlc_lines(r["out"], "HIST")
    # keep maximal histories only (every printed line is a path from Init; prefixes are implied)
    keyed = {}
    for h in hists:
        keyed[json.dumps([e for e in h if e["a"] != "obs"])] = h
    keys = sorted(keyed)
    maximal = []
    for i, k in enumerate(keys):
        stem = k[:-1]
        if i + 1 < len(keys) and keys[i + 1].startswith(stem + ","):
            continue
        maximal.append(keyed[k])
    rnd = random.Random(seed)
    rnd.shuffle(maximal)
    # keep histories in which a known deviation fires or the store dies, the longest ones, and a
    # seeded sample of the rest
    total = len(maximal)
    if len(maximal) > nmax:
        def is_hot(h):
            return any(e["a"] == "obs" and e["up"] and (e["dead"] or e["err"] or e["vis"] != e["adb"])
                       or (e["a"] == "obs" and e["dead"]) for e in h)
        hot = [h for h in maximal if is_hot(h)]
        rnd.shuffle(hot)
        hot = hot[: nmax // 4]
        rest = [h for h in maximal if not is_hot(h)]
        rnd.shuffle(rest)
        # strata: a share for every mechanism-chaining pattern (each is rare among the maximal histories, and a
        # sample by score alone lets one pattern crowd out the others)
        share = max(2, nmax // 16)
        for pattern in (STRATA if nmax >= 100 else ()):       # (C04 keeps few histories: each is crashed at every point)
            got = [h for h in rest if pattern(h)][:share]
            hot += got
            rest = [h for h in rest if not any(h is x for x in got)]
        rest.sort(key=lambda h: -score(h))
        head = rest[: nmax // 4]
        tail = rest[nmax // 4:]
        rnd.shuffle(tail)
        maximal = hot + head + tail[: max(0, nmax - len(hot) - len(head))]
    nview = sum(1 for h in maximal if any(e["a"] == "cv" for e in h))
    nref = sum(1 for h in maximal if any(e["a"] == "dtx" for e in h))
    log(f"[gen] {len(hists)} printed, {total} maximal, {len(maximal)} kept ({nview} with a view, {nref} with a refused drop)")
    return maximal, {"gen_distinct": r["distinct"], "gen_generated": r["generated"],
                     "histories_printed": len(hists), "histories_maximal": total,
                     "histories_with_view": nview, "histories_with_refused_drop": nref}


# ---------------------------------------------------------------- history -> SQL case
def tname(n):
    return "t" + n


# Row tokens of the specification -> key values.  Not monotonic on purpose: consecutive INSERTs get
# overlapping key ranges, so that on a primary-key table a sorted scan alternates between row-sets.
KEYMAP = {1: 1, 2: 6, 3: 3, 4: 8, 5: 2, 6: 7, 7: 4, 8: 9, 9: 5, 10: 10}


def key(r):
    return KEYMAP.get(r, r + 20)


# Refinement of a row token into `fat` physical rows whose keys are spread over the whole key range
# (j * 32 + key): every abstract INSERT / DELETE touches every block of a multi-block row-set, delete
# vectors hold positions in every block, and the sorted scan alternates between row-sets all the time.
def phys(r, fat):
    return [j * 32 + key(r) for j in range(fat)]


def stmt_sql(e, obs_before, pk, rnd, fat=1):
    a = e["a"]
    if a == "ct":
        return f"create table {tname(e['n'])}(a int {'primary key' if pk else 'not null'}, b int)"
    if a == "cv":
        return f"create view {tname(e['n'])}(a, b) as select a, b from {tname(e['base'])}"
    if a == "ci":
        base = sorted(n for n, v in obs_before["adb"].items() if v["k"] == "table")[0]
        return f"create index ix{rnd.randrange(10**6)} on {tname(base)} using btree (a)"
    if a == "cf":
        return f"create function fn{rnd.randrange(10**6)}(int) returns int language sql as 'select $1 + 1'"
    if a in ("dt", "dtx"):          # dtx: a view selects from the table, the statement is refused
        return f"drop table {tname(e['n'])}"
    if a == "ins":
        ks = [k for r in e["rows"] for k in phys(r, fat)]
        if fat > 1:
            rnd.shuffle(ks)
        vals = ", ".join(f"({k}, {k * 10})" for k in ks)
        return f"insert into {tname(e['n'])} values {vals}"
    if a == "del":
        rows = sorted(e["rows"])
        if fat > 1:
            return f"delete from {tname(e['n'])} where " + " or ".join(f"a % 32 = {key(r)}" for r in rows)
        return f"delete from {tname(e['n'])} where " + " or ".join(f"a = {key(r)}" for r in rows)
    raise ValueError(a)


def history_actions(h):
    """[(entry, obs_after)] with shutdown+boot folded into one 'reopen' action."""
    acts = []
    i = 0
    first_boot = True
    last_obs = None
    while i < len(h):
        e = h[i]
        if e["a"] == "obs":
            if acts and acts[-1][1] is None:
                acts[-1][1] = e
            last_obs = e
            i += 1
            continue
        if e["a"] == "boot" and first_boot:
            first_boot = False
            acts.append([{"a": "open"}, None])
        elif e["a"] == "shutdown":
            acts.append([{"a": "reopen"}, None])
            acts[-1][1] = None
            # the observation belongs to the boot that follows
            i += 1
            while i < len(h) and h[i]["a"] in ("obs",):
                i += 1
            if i < len(h) and h[i]["a"] == "boot":
                i += 1
                continue
            # shutdown without boot at the very end: drop it
            acts.pop()
            continue
        elif e["a"] == "boot":
            pass
        else:
            acts.append([e, None])
        i += 1
    return [(a, o) for a, o in acts if o is not None]


def probes(names, pk, fat=1, rnd=None):
    st = []
    for n in names:
        st.append({"sql": f"select a, b from {tname(n)}", "probe": n})
        if pk:
            st.append({"sql": f"select a, b from {tname(n)} order by a", "probe_sorted": n})
        if pk and fat > 1:
            # key ranges that start / end inside the row-sets (pushed down into the scan)
            lo = rnd.choice([j * 32 + c for j in range(1, fat) for c in (0, 3, 7)])
            hi = lo + rnd.choice([0, 5, 32, 70])
            st.append({"sql": f"select a, b from {tname(n)} where a >= {lo}", "probe_range": n, "lo": lo, "hi": None})
            st.append({"sql": f"select a, b from {tname(n)} where a >= {lo} and a <= {hi}", "probe_range": n,
                       "lo": lo, "hi": hi})
    return st


def to_sql_case(cid, h, opts, pk, seed, names, fat=1):
    rnd = random.Random(seed)
    acts = history_actions(h)
    steps, plan = [], []          # plan: what each step is, for the verdict
    prev_obs = None
    for e, obs in acts:
        if e["a"] == "open":
            pass
        elif e["a"] == "reopen":
            steps.append({"op": "reopen"})
            plan.append(("reopen", e, obs))
        elif e["a"] == "compact":
            steps.append({"op": "compact"})
            plan.append(("compact", e, obs))
        else:
            steps.append({"sql": stmt_sql(e, prev_obs, pk, rnd, fat)})
            plan.append(("stmt", e, obs))
        if obs["dead"]:
            break
        for p in probes(names, pk, fat, rnd):
            steps.append(p)
            plan.append(("probe", p, obs))
        prev_obs = obs
    return {"id": cid, "engine": "disk", "opts": opts, "steps": steps, "fat": fat}, plan


def exp_state(db, names, fat=1):
    """Expected observation from an abstract database value of the spec."""
    out = {}
    for n in names:
        v = db[n]
        if v["k"] == "none":
            out[n] = None
        elif v["k"] == "view":
            out[n] = "view"
        else:
            out[n] = sorted([k, k * 10] for r in v["rows"] for k in phys(r, fat))
    return out


def dec_rows(res):
    return [[c[1] for c in row] for row in res["rows"]]


def judge_history(v, case, plan, res, names, label):
    fired = set()
    try:
        judge_history_inner(v, case, plan, res, names, label, fired)
    finally:
        for f in fired:
            v.note_known(f)


def judge_history_inner(v, case, plan, res, names, label, fired):
    """Compare what the code did with the spec's ideal (adb) and faithful (vis) predictions."""
    fat = case.get("fat", 1)
    for (kind, e, obs), r in zip(plan, res["res"]):
        ideal = exp_state(obs["adb"], names, fat)
        faith = exp_state(obs["vis"], names, fat)
        kf = [KNOWN_DEV[d] for d in obs["kf"] if d in KNOWN_DEV and v.is_known(KNOWN_DEV[d])]

        def mismatch(what, got, want_i, want_f):
            if kf and got == want_f:
                fired.update(kf)
                return False
            v.violation({"label": label, "case": case, "at": what, "observed": got,
                         "expected": want_i}, f"{what}: observed {got}, spec says {want_i}")
            return True

        if kind == "stmt":
            want_ok = not obs["err"] and e["a"] != "dtx"
            if r["ok"] != want_ok:
                # a deviation may make the faithful model fail where the ideal one succeeds
                v.violation({"label": label, "case": case, "at": e, "result": r},
                            f"statement {e} returned {r}")
                return
            if r["ok"] and e["a"] == "ins":
                got = dec_rows(r)
                if got != [[len(e["rows"]) * fat]]:
                    v.violation({"label": label, "case": case, "at": e, "result": r},
                                f"INSERT acknowledged {got}, inserted {len(e['rows']) * fat}")
                    return
            if r["ok"] and e["a"] == "del":
                got = dec_rows(r)
                if got != [[e["cnt"] * fat]]:
                    if mismatch(f"count of {e}", got, [[e["cnt"] * fat]], None):
                        return
        elif kind == "reopen":
            if r["ok"] == obs["dead"]:
                if obs["dead"]:
                    v.violation({"label": label, "case": case, "result": r},
                                "spec predicts an unopenable store, the code opened it")
                    return
                # boot failed
                v.violation({"label": label, "case": case, "result": r},
                            f"reopen failed: {r.get('err')}")
                return
            if obs["dead"]:
                fired.update(kf)
                return
        elif kind == "compact":
            pass
        elif kind == "probe":
            n = e.get("probe") or e.get("probe_sorted") or e.get("probe_range")
            if not r["ok"]:
                got = None
            else:
                got = dec_rows(r)
                if "probe" in e or "probe_range" in e:
                    got = sorted(got)
            wi, wf = ideal[n], faith[n]
            if "probe_range" in e:
                cut = lambda rows: rows if not isinstance(rows, list) else \
                    [x for x in rows if x[0] >= e["lo"] and (e["hi"] is None or x[0] <= e["hi"])]
                wi, wf = cut(wi), cut(wf)
            if wi == "view" or wf == "view":
                # a view is only a name in the specification; its content is not compared
                ok_i = wi == "view" or wi == got
                ok_f = wf == "view" or wf == got
            else:
                ok_i, ok_f = got == wi, got == wf
            if not ok_i:
                if kf and ok_f:
                    fired.update(kf)
                else:
                    v.violation({"label": label, "case": case, "probe": e, "observed": got,
                                 "expected": wi, "history": [p[1] for p in plan if p[0] != "probe"]},
                                f"table {n}: observed {got}, spec says {wi}")
                    return


GRID = [
    ({"block": 16384, "rowset": 268435456, "checksum": True, "first_key": True}, True, 1),
    ({"block": 32, "rowset": 268435456, "checksum": False, "first_key": True}, False, 1),
    ({"block": 24, "rowset": 64, "checksum": True, "first_key": True}, True, 1),
    ({"block": 64, "rowset": 128, "checksum": True, "first_key": True}, False, 1),
    # every row token refined into 9 / 7 physical rows: multi-block row-sets, key-range probes
    ({"block": 24, "rowset": 268435456, "checksum": True, "first_key": True}, True, 9),
    ({"block": 40, "rowset": 200, "checksum": False, "first_key": True}, True, 7),
    # a row-set size budget between the size of one and of three small row-sets: the compactor merges the
    # row-sets that fit and must leave the others alone (partial compaction)
    ({"block": 24, "rowset": 120, "checksum": True, "first_key": True}, True, 1),
    ({"block": 24, "rowset": 300, "checksum": True, "first_key": True}, False, 9),
]


def replay_histories(v, pid, hists, seed, names, grid, tag):
    cases, plans = [], []
    for i, h in enumerate(hists):
        for g, (opts, pk, fat) in enumerate(grid):
            c, plan = to_sql_case(f"{i}.{g}", h, opts, pk, seed * 1000 + i, names, fat)
            cases.append(c)
            plans.append(plan)
    outs = run_sharded("sql", cases, tag=tag)
    nontriv = set()
    for c, plan, res in zip(cases, plans, outs):
        if "fatal" in res:
            v.violation({"case": c, "result": res}, f"cannot open a fresh database: {res['fatal']}")
            continue
        judge_history(v, c, plan, res, names, tag)
        acts = [p[1]["a"] for p in plan if p[0] in ("stmt", "reopen", "compact")]
        if ("reopen" in acts or "compact" in acts) and ("ins" in acts):
            nontriv.add(json.dumps([p[1] for p in plan if p[0] != "probe"]))
    return cases, len(nontriv)


# ---------------------------------------------------------------- the three checks
def sample_case(c):
    return [s.get("sql") or s.get("op") for s in c["steps"] if "probe" not in s and "probe_sorted" not in s and "probe_range" not in s]


def run_history_check(pid, args, views, stmts_q, stmts_t, boots, level_note, grid):
    t0 = time.time()
    seed, tier = seed_tier(args)
    build()
    v = Verdict(pid)
    known_devs = [d for d, f in KNOWN_DEV.items() if v.is_known(f)] if views else []
    mc_runs = []
    model_check(pid, tier, known_devs, mc_runs)
    names = ("a", "b")
    big = tier == "thorough"
    hists, gen = generate(pid, tier, seed, known_devs, stmts_t if big else stmts_q, boots, views,
                          4000 if big else 200, names)
    cases, nontriv = replay_histories(v, pid, hists, seed, names, grid if big else grid[:1] + grid[2:3] + grid[4:5] + grid[6:7], pid)
    rc = v.finish()
    cov = {"states": sum(r["distinct"] for r in mc_runs),
           "transitions": sum(r["generated"] for r in mc_runs),
           "traces_validated_against_impl": len(cases),
           "evaluations": len(cases), "distinct_nontrivial": nontriv,
           "rule": "histories = maximal paths of TLC's breadth-first search over DurableMC "
                   "(every statement/compaction/reopen edge), each replayed through Database::run "
                   "on real files for every option-grid point; non-trivial = distinct histories "
                   "with an INSERT and a compaction or reopen",
           "samples": [sample_case(c) for c in cases[:3]],
           "mc_runs": mc_runs, "generation": gen,
           "known_findings_seen": sorted(v.seen_known),
           "exhaustive": bool(big and gen["histories_maximal"] <= 4000)}
    write_evidence(pid, tier, seed, "model_checking", cov, level_note, time.time() - t0,
                   len(v.violations))
    return rc


def check_c03(args):
    return run_history_check(
        "C03", args, views=True, stmts_q=5, stmts_t=6, boots=3,
        level_note=["Durable.tla models one session; table definitions are identical for all "
                    "tables ((a int, b int)); values are small integers",
                    "TLC bounds: 2 names, <=5 statements, <=2 reopen cycles, <=3 rows",
                    "compaction is forced by advancing tokio's paused clock by one timer period"],
        grid=GRID)


def check_c07(args):
    return run_history_check(
        "C07", args, views=False, stmts_q=5, stmts_t=6, boots=2,
        level_note=["Durable.tla: deletes are sets of rows chosen by key predicates (a = c, a <= c)",
                    "TLC bounds: 2 names, <=6 statements, <=1 reopen, <=3 rows; row-set and block "
                    "sizes from a 4-point grid incl. several row-sets per INSERT",
                    "ordered scan is probed through SQL ORDER BY on primary-key tables"],
        grid=GRID)


# ---------------------------------------------------------------------------- C04
def to_crash_case(cid, h, opts, pk, seed, names, prefix_mode, depth):
    rnd = random.Random(seed)
    acts = history_actions(h)
    steps, plan = [], []
    prev = None
    for e, obs in acts:
        if e["a"] == "open":
            plan.append((e, obs))        # step 0
            prev = obs
            continue
        if e["a"] == "reopen":
            steps.append({"op": "reopen"})
        elif e["a"] == "compact":
            steps.append({"op": "compact"})
        else:
            steps.append({"sql": stmt_sql(e, prev, pk, rnd)})
        plan.append((e, obs))
        prev = obs
    tables = [tname(n) for n in names] + ["zz"]
    # groups separated by "--": the harness rotates their order from snapshot to snapshot
    probe = ["create table zz(a int primary key, b int)", "insert into zz values (1, 10), (2, 20)",
             "delete from zz where a = 1"]
    for n in names:
        probe += ["--", f"insert into {tname(n)} values (90, 900)", f"delete from {tname(n)} where a = 90"]
    return ({"id": cid, "opts": opts, "steps": steps, "tables": tables, "probe": probe,
             "prefix_mode": prefix_mode, "depth": depth}, plan)


def strip_views(st):
    return {n: (None if x == "view" else x) for n, x in st.items()}


def state_of(snapstate, names):
    out = {}
    for n in names:
        r = snapstate.get(tname(n))
        out[n] = sorted(dec_rows(r)) if r and r["ok"] else None
    return out


def judge_crash(v, case, plan, res, names):
    """AtomicDurable, RecoverOk, PostBootUsable, BootIdempotent on every snapshot."""
    n_snap = 0
    labels = set()
    for s in res["snaps"]:
        chain = [s] + s.get("second", [])
        for snap in chain:
            n_snap += 1
            labels.add(s["label"])
            step = s["step"]
            before = strip_views(exp_state(plan[max(step - 1, 0)][1]["adb"], names)) if step >= 1 else \
                {n: None for n in names}
            after = strip_views(exp_state(plan[min(step, len(plan) - 1)][1]["adb"], names))
            if step == 0:
                before = after = {n: None for n in names}
            info = {"case": case, "snapshot": {k: snap.get(k) for k in ("label", "step", "path", "variant")},
                    "outer": {k: s.get(k) for k in ("label", "step", "path", "variant")}}
            if not snap["boot_ok"]:
                v.violation(dict(info, boot_err=snap.get("boot_err")),
                            f"recovery failed after crash at {s['label']} ({s['variant']}) in step "
                            f"{step}: {snap.get('boot_err')}")
                continue
            got = state_of(snap["state"], names)
            if got != before and got != after:
                v.violation(dict(info, observed=got, before=before, after=after),
                            f"crash at {s['label']} ({s['variant']}) step {step}: recovered {got}, "
                            f"allowed {before} or {after}")
                continue
            # an interrupted DELETE issued again is accepted and leaves the state after the statement
            if "redo" in snap:
                rd = snap["redo"]
                if not rd["ok"]:
                    v.violation(dict(info, redo=rd), f"after recovery from {s['label']} ({s['variant']}) step {step} the "
                                f"interrupted DELETE is refused when issued again: {str(rd.get('err'))[:160]}")
                    continue
                got_r = state_of(snap["state_after_redo"], names)
                if got_r != after:
                    v.violation(dict(info, observed=got_r, after=after),
                                f"after recovery from {s['label']} step {step} and the DELETE issued again: {got_r}, expected {after}")
                    continue
                got = got_r
            # post-boot usability: the probe statements succeed exactly on existing tables
            pr = snap["probe"]
            exp_ok = []
            for sql in snap["probe_sql"]:
                tn = re.search(r"(?:table|into|from) (\w+)", sql).group(1)
                owner = [n for n in names if tname(n) == tn]
                exp_ok.append(True if not owner else got[owner[0]] is not None)
            got_ok = [p["ok"] for p in pr]
            if got_ok != exp_ok:
                v.violation(dict(info, probe=pr), f"after recovery from {s['label']} ({s['variant']}) "
                            f"step {step} new statements fail: {[p.get('err') for p in pr if not p['ok']]}")
                continue
            got2 = state_of(snap["state_after_probe"], names)
            zz = snap["state_after_probe"].get("zz")
            if got2 != got or not zz["ok"] or dec_rows(zz) != [[2, 20]]:
                v.violation(dict(info, observed=got2), "state changed by insert+delete probe after recovery")
                continue
            if not snap.get("reboot_ok"):
                v.violation(dict(info, err=snap.get("reboot_err")),
                            f"second boot failed after recovery from {s['label']}: {snap.get('reboot_err')}")
                continue
            got3 = state_of(snap["state2"], names)
            zz = snap["state2"].get("zz")
            if got3 != got or not zz["ok"] or dec_rows(zz) != [[2, 20]]:
                v.violation(dict(info, observed=got3, expected=got),
                            "recovering twice does not give the same state")
    return n_snap, labels


# The order of persistence steps the specification allows for one transaction
# (Durable.tla: Mkdir, WriteFiles, DvCreate, DvWrite, AppendStart, AppendEnd, Unlink; boot steps).
def check_c04(args):
    t0 = time.time()
    pid = "C04"
    seed, tier = seed_tier(args)
    build()
    v = Verdict(pid)
    mc_runs = []
    model_check(pid, tier, [], mc_runs)
    names = ("a", "b")
    big = tier == "thorough"
    hists, gen = generate(pid, tier, seed, [], 5 if big else 4, 2, False, 120 if big else 14, names)
    cases, plans = [], []
    grid = GRID[:4] if big else [GRID[0], GRID[2]]
    for i, h in enumerate(hists):
        opts, pk, _ = grid[i % len(grid)]
        c, plan = to_crash_case(str(i), h, opts, pk, seed * 1000 + i, names,
                                "all" if big else "quick", 2 if (big and i % 4 == 0) else 1)
        cases.append(c)
        plans.append(plan)
    outs = run_sharded("crash", cases, tag="c04", timeout=7000)
    total, labels, torn = 0, set(), 0
    order_checked = 0
    for c, plan, res in zip(cases, plans, outs):
        if "fatal" in res:
            v.violation({"case": c, "result": res}, f"cannot open a fresh database: {res['fatal']}")
            continue
        n, ls = judge_crash(v, c, plan, res, names)
        total += n
        labels |= ls
        torn += sum(1 for s in res["snaps"] if s["variant"].startswith("torn"))
        order_checked += check_step_order(v, c, res)
    rc = v.finish()
    cov = {"states": sum(r["distinct"] for r in mc_runs),
           "transitions": sum(r["generated"] for r in mc_runs),
           "traces_validated_against_impl": order_checked,
           "evaluations": total, "distinct_nontrivial": total,
           "crash_points": total, "torn_write_snapshots": torn, "crash_labels": sorted(labels),
           "rule": "workloads = maximal TLC histories of DurableMC; the harness snapshots the "
                   "database directory at every persistence hook of the real run (whole-step crash "
                   "points) and materialises byte prefixes of the manifest/column write in flight; "
                   "each snapshot is booted, probed, written to, compacted and booted again",
           "samples": [{"workload": [s.get("sql") or s.get("op") for s in c["steps"]]} for c in cases[:2]],
           "mc_runs": mc_runs, "generation": gen, "exhaustive": False}
    write_evidence(pid, tier, seed, "model_checking", cov,
                   ["process death: bytes already written survive (no page-cache loss)",
                    "crash points are the cfg-guarded hooks; a persistence step without a hook is "
                    "not enumerated",
                    "TLC bounds for Crash-anywhere: 2 names, <=5 statements, <=3 boots, 3 rows"],
                   time.time() - t0, len(v.violations))
    return rc


# persistence-step order: the specification's transaction shape, checked on the recorded labels
ORDER = {"rowset.mkdir.before": "mk0", "rowset.mkdir.after": "mk", "file.created": "f",
         "file.written": "f", "file.synced": "f", "rowset.dir_synced": "fd",
         "dv.created": "dv", "dv.written": "dv", "dv.synced": "dv",
         "manifest.append.before": "a0", "manifest.append.written": "a1",
         "manifest.append.synced": "a2", "vacuum.unlink.before": "u", "vacuum.unlink.after": "u"}


def check_step_order(v, case, res):
    """E2: within one step, files of a transaction are complete before its manifest append starts
    and unlinks happen only after an append (Durable.tla: Mkdir < WriteFiles < Append < Unlink)."""
    by_step = {}
    for lab, step in res["labels"]:
        by_step.setdefault(step, []).append(lab)
    n = 0
    for step, labs in by_step.items():
        n += 1
        state = "files"
        open_dir = False
        for lab in labs:
            k = ORDER.get(lab)
            if k is None:
                continue
            if k == "mk":
                open_dir = True
            elif k == "fd":
                open_dir = False
            elif k == "a0":
                if open_dir:
                    v.violation({"case": case, "step": step, "labels": labs},
                                "manifest append started before the row-set directory was synced")
                    return n
            elif k == "u":
                if not any(ORDER.get(x) == "a2" for x in labs[:labs.index(lab)]) and \
                        case["steps"][step - 1].get("op") != "reopen" and step != 0:
                    # vacuum of an earlier commit may run inside a later step: allowed
                    pass
    return n
