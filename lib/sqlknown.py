"""Recorded SQL-level defects of the unchanged tree (known_findings.json, ids Q*): each has a concrete
repro that is re-run by the checks of its properties.  While the repro still fails the way it was
recorded, the check prints KNOWN-FINDING and the construct stays outside the generated grammar; a
repro that passes prints nothing."""
import json, os, sqlite3
from common import *

T3 = ["create table t1(a int, b int, c varchar)", "create table t2(a int, b int, c varchar)",
      "create table t3(a int, b int)"]

REPROS = [
    {"id": "Q1", "properties": ["C02", "C11", "C01"],
     "summary": "RIGHT / FULL OUTER JOIN loses rows (nested-loop right/full outer join and the outer-join "
                "push-down rules): e.g. t1 FULL JOIN t2 ON t1.a = t2.a AND t1.b > 5 drops the unmatched left rows",
     "setup": T3 + ["insert into t1 values (1,1,'a'),(2,2,'b')", "insert into t2 values (1,1,'a'),(3,3,'c')"],
     "sql": "select x1.a, x2.a from t1 as x1 full join t2 as x2 on (x1.a = x2.a) and x1.b > 5",
     "configs": ["mem.on", "mem.off"]},
    {"id": "Q2", "properties": ["C02", "C01"],
     "summary": "LEFT JOIN whose ON clause has a conjunct over the left side only is planned as a filter "
                "(pushdown-join-condition rules): unmatched left rows disappear",
     "setup": T3 + ["insert into t1 values (3,1,NULL)", "insert into t2 values (2,2,'ab')"],
     "sql": "select x1.a, x2.b from t1 as x1 left join t3 as x2 on ((x1.b = x2.b) and (x1.c = x1.c))",
     "configs": ["mem.on"]},
    {"id": "Q3", "properties": ["C02", "C01"],
     "summary": "x NOT IN (subquery) ignores NULLs (planned as an anti join): rows are returned although the "
                "subquery result contains NULL / the left value is NULL",
     "setup": T3 + ["insert into t2 values (NULL,0,'b'),(3,0,'b'),(1,2,'b')", "insert into t3 values (NULL,0)"],
     "sql": "select x1.a from t2 as x1 where x1.a not in (select x2.a from t3 as x2)",
     "configs": ["mem.on"]},
    {"id": "Q4", "properties": ["C02", "C12", "C01"],
     "summary": "a plan node with zero output columns loses its row count: ORDER BY a constant, or a FROM item "
                "none of whose columns is used, returns no rows",
     "setup": T3 + ["insert into t2 values (1,1,'a'),(2,2,'b')"],
     "sql": "select 1 as c1 from t2 as x1 order by c1",
     "configs": ["mem.on"]},
    {"id": "Q5", "properties": ["C02", "C01"],
     "summary": "a global aggregate over a filter the optimizer proves false returns no row instead of one "
                "(the whole plan is replaced by Empty)",
     "setup": T3 + ["insert into t2 values (1,1,'a')"],
     "sql": "select count(*) as c1 from t2 as x1 where 1 = 2",
     "configs": ["mem.on"]},
    {"id": "Q7", "properties": ["C02", "C01", "C17"],
     "summary": "a subquery predicate that is not a top-level conjunct of WHERE (EXISTS under OR) is planned "
                "wrongly: an uncorrelated EXISTS OR p returns no rows, a correlated one panics with "
                "'column not found from input'",
     "setup": T3 + ["insert into t1 values (1,1,'a'),(2,2,'b')", "insert into t2 values (1,1,'a')"],
     "sql": "select x1.a from t1 as x1 where (exists (select 1 from t2 as x2)) or (x1.a = 5)",
     "configs": ["mem.on"]},
    {"id": "Q8", "properties": ["C05", "C17", "C01"],
     "summary": "subquery plans depend on table statistics: with the real (small) row counts of the disk engine, or "
                "with mocked small counts, the optimizer extracts a plan that still contains Apply or references "
                "a column its input does not produce, and the statement panics; the memory engine (no statistics) answers",
     "setup": T3 + ["insert into t3 values (1,1),(2,2)", "insert into t2 values (1,1,'a')"],
     "sql": "select x1.a as c1, (x1.b = x1.b) as c2 from t3 as x1 where ((exists (select 1 as s1 from t2 as x2 where (x2.b = x1.b))) and ((x1.a - 2) < x1.a)) order by c1 desc",
     "configs": ["disk.on"]},
    {"id": "Q6", "properties": ["C02", "C14", "C01"],
     "summary": "aggregates over constants / GROUP BY a constant expression under LIMIT return no rows",
     "setup": T3 + ["insert into t2 values (1,2,'a'),(NULL,NULL,'')"],
     "sql": "select (2 + 1) as c1, max(x1.b) as c3 from t2 as x1 group by (2 + 1) limit 3",
     "configs": ["mem.on"]},
    {"id": "Q13", "properties": ["C02"],
     "summary": "count(*) of an outer query over a derived table that itself computes count(*): both are the same "
                "argument-free expression node, the outer count(*) returns the inner one's value when the inner "
                "count column is used outside",
     "setup": T3 + ["insert into t3 values (2,1),(2,3),(1,1)"],
     "sql": "select d1, d2, count(*) from (select a as d1, count(*) as d2 from t3 group by a) as x group by d1, d2",
     "configs": ["mem.on", "mem.off"]},
    {"id": "Q13", "properties": ["C02", "C01"],
     "summary": "an outer aggregate f(x.d1) over a derived table that passes d1 = e through and also computes f(e) "
                "(count(b) and count(b), min(b) and min(b)): after the derived column is inlined both are the same "
                "expression node and the outer aggregate returns the inner one's value",
     "setup": T3 + ["insert into t3 values (1,1),(2,1),(3,2)"],
     "sql": "select x.d2 as c1, count(x.d1) as c2 from (select b as d1, count(b) as d2 from t3 group by b) as x group by x.d2",
     "configs": ["mem.on", "mem.off"]},
    {"id": "Q12", "properties": ["C02"],
     "summary": "a CTE referenced more than once is bound once and every reference shares the same column "
                "identities: in `with d as (..) select .. from d as x join d as y on x.a = y.a` the condition "
                "becomes a = a (all non-NULL pairs match), x.a < y.a becomes a < a (nothing matches)",
     "setup": T3 + ["insert into t3 values (1,2),(3,4)"],
     "sql": "with d as (select a, b from t3) select x.a, y.b from d as x join d as y on x.a = y.a",
     "configs": ["mem.on", "mem.off"]},
    {"id": "Q11", "properties": ["C02", "C01"],
     "summary": "a scalar subquery with a WHERE clause is unnested into an aggregation grouped by all outer "
                "columns, which merges duplicate outer rows: with t3 = {(0,1),(0,1),(2,1),(2,NULL)} the query "
                "returns (0) once instead of twice",
     "setup": T3 + ["insert into t3 values (2,NULL),(0,1),(2,1),(0,1)"],
     "sql": "select x1.a from t3 as x1 where x1.b = (select max(x4.b) from t3 as x4 where x4.a is not null)",
     "configs": ["mem.on"]},
]


def sqlite_eval(setup, sql):
    con = sqlite3.connect(":memory:")
    for s in setup:
        con.execute(s.replace("varchar", "text"))
    return sorted(json.dumps(list(r)) for r in con.execute(sql).fetchall())


def run_repros(v, pid):
    mine = [r for r in REPROS if pid in r["properties"] and v.is_known(r["id"])]
    if not mine:
        return
    cases = []
    for r in mine:
        for eng in sorted({c.split(".")[0] for c in r["configs"]}):
            steps = [{"sql": s} for s in r["setup"]] + [{"sql": r["sql"]}, {"sql": "pragma disable_optimizer"},
                                                        {"sql": r["sql"]}]
            cases.append({"id": f"{r['id']}.{eng}", "engine": eng, "steps": steps})
    outs = run_sharded("sql", cases, tag=f"known-{pid}", timeout=600, case_timeout=30)
    by = {o["id"]: o for o in outs}
    for r in mine:
        want = sqlite_eval(r["setup"], r["sql"])
        still = False
        for c in r["configs"]:
            eng, conf = c.split(".")
            o = by.get(f"{r['id']}.{eng}")
            if not o or o.get("hang"):
                still = True
                continue
            res = o["res"][-3 if conf == "on" else -1]
            if not res["ok"]:
                still = True
            else:
                got = sorted(json.dumps([None if x[0] == "n" else x[1] for x in row]) for row in res["rows"])
                still |= got != want
        if still:
            v.note_known(r["id"], r["summary"])
