"""Shared plumbing of ./check: build, TLC, sharded harness runs, evidence, verdicts."""
import fcntl, json, os, random, re, shutil, subprocess, sys, time

ROOT = os.path.dirname(os.path.dirname(os.path.abspath(__file__)))
WORK = os.path.join(ROOT, "work")
SPEC = os.path.join(ROOT, "spec")
HARNESS = os.path.join(ROOT, "harness")
VH = os.path.join(HARNESS, "target", "debug", "vh")
REPO = "/repo"
NCPU = os.cpu_count() or 4


class ToolError(Exception):
    pass


def log(*a):
    print(*a, file=sys.stderr, flush=True)


def ensure_dirs():
    for d in (WORK, os.path.join(ROOT, "evidence")):
        os.makedirs(d, exist_ok=True)


def build():
    """Build the harness (and the hooked risinglight crate) from /repo's working tree."""
    ensure_dirs()
    lock = open(os.path.join(WORK, "build.lock"), "w")
    fcntl.flock(lock, fcntl.LOCK_EX)
    try:
        for f in ("Cargo.lock", "rust-toolchain"):
            src = os.path.join(REPO, f)
            dst = os.path.join(HARNESS, f)
            if not os.path.exists(dst) or open(src, "rb").read() != open(dst, "rb").read():
                shutil.copyfile(src, dst)
        t0 = time.time()
        env = dict(os.environ, CARGO_NET_OFFLINE="true")
        p = subprocess.run(["cargo", "build", "--offline"], cwd=HARNESS, env=env,
                           stdout=subprocess.PIPE, stderr=subprocess.STDOUT, text=True)
        if p.returncode != 0:
            log(p.stdout[-6000:])
            raise ToolError("harness build failed")
        log(f"[build] ok in {time.time()-t0:.0f}s")
    finally:
        fcntl.flock(lock, fcntl.LOCK_UN)
        lock.close()
    return VH


def tlc(spec, cfg, workers=4, timeout=1800, env=None, extra=(), xmx="4g", depth_first=False,
        tag=None):
    """Run TLC; returns dict(out, distinct, generated, depth, ok, violated, coverage)."""
    ensure_dirs()
    tag = tag or (os.path.basename(cfg).replace(".cfg", "") + f"-{os.getpid()}")
    meta = os.path.join(WORK, "tlc", tag)
    shutil.rmtree(meta, ignore_errors=True)
    os.makedirs(meta, exist_ok=True)
    e = dict(os.environ)
    jopts = "-Xss1g"
    if depth_first:
        jopts += " -Dtlc2.tool.queue.IStateQueue=StateDeque"
    e["JAVA_TOOL_OPTIONS"] = jopts
    if env:
        e.update(env)
    cmd = ["timeout", str(timeout), "java", "-XX:+UseParallelGC", f"-Xmx{xmx}",
           f"-DTLA-Library={SPEC}",
           "-cp", "/opt/veriftools/tla/tla2tools.jar:/opt/veriftools/tla/CommunityModules-deps.jar",
           "tlc2.TLC", "-workers", str(workers), "-metadir", meta, "-cleanup",
           "-noGenerateSpecTE", "-config", cfg] + list(extra) + [spec]
    t0 = time.time()
    p = subprocess.run(cmd, cwd=SPEC, env=e, stdout=subprocess.PIPE, stderr=subprocess.STDOUT,
                       text=True)
    out = p.stdout
    shutil.rmtree(meta, ignore_errors=True)
    r = {"out": out, "rc": p.returncode, "wall_s": time.time() - t0, "cmd": " ".join(cmd[2:])}
    m = re.search(r"(\d+) states generated, (\d+) distinct states found", out)
    r["generated"] = int(m.group(1)) if m else 0
    r["distinct"] = int(m.group(2)) if m else 0
    m = re.search(r"depth of the complete state graph search is (\d+)", out)
    r["depth"] = int(m.group(1)) if m else 0
    r["violated"] = None
    m = re.search(r"Invariant (\w+) is violated", out)
    if m:
        r["violated"] = m.group(1)
    m = re.search(r"Action property (\w+) is violated", out) or m
    if m and not r["violated"]:
        r["violated"] = m.group(1)
    r["completed"] = "Model checking completed" in out or "Finished in" in out
    r["ok"] = r["completed"] and r["violated"] is None and "Error:" not in out
    if p.returncode == 124:
        raise ToolError(f"TLC timed out on {cfg}")
    # per-action coverage: <Name line ...>: distinct:generated
    cov = {}
    for m in re.finditer(r"^<(\w+) line \d+, col \d+ to line \d+, col \d+ of module \w+>: (\d+):(\d+)",
                         out, re.M):
        cov[m.group(1)] = (int(m.group(2)), int(m.group(3)))
    r["coverage"] = cov
    return r


def tlc_lines(out, tag):
    """Lines printed by PrintT(<<tag, json>>) -> list of parsed JSON values."""
    res = []
    pre = '<<"%s", "' % tag
    for line in out.splitlines():
        if line.startswith(pre) and line.endswith('">>'):
            s = line[len(pre):-3]
            s = s.replace('\\"', '"').replace("\\\\", "\\")
            try:
                res.append(json.loads(s))
            except Exception:
                pass
    return res


def run_sharded(driver, cases, shards=None, timeout=3600, tag="run", extra_args=(), case_timeout=60):
    """Run `vh <driver> in out` over `cases` split into shards; returns outputs in input order.
    A case that hangs (exit code 3 of the shard, `hang` record) is reported as {"id", "hang": True}
    and the shard is restarted behind it."""
    ensure_dirs()
    shards = shards or max(1, min(NCPU - 2, len(cases)))
    d = os.path.join(WORK, f"{tag}-{os.getpid()}")
    shutil.rmtree(d, ignore_errors=True)
    os.makedirs(d)
    env = dict(os.environ, VH_CASE_TIMEOUT=str(case_timeout))
    deadline = time.time() + timeout

    def start(i, part, gen):
        fin = os.path.join(d, f"in{i}.{gen}.ndjson")
        fout = os.path.join(d, f"out{i}.{gen}.ndjson")
        with open(fin, "w") as f:
            for c in part:
                f.write(json.dumps(c) + "\n")
        open(fout, "w").close()
        p = subprocess.Popen(["timeout", str(max(10, int(deadline - time.time()))), VH, driver, fin, fout]
                             + list(extra_args), stdout=subprocess.PIPE, stderr=subprocess.STDOUT,
                             text=True, env=env)
        return p, fout

    results = {}
    pending = []
    for i in range(shards):
        part = cases[i::shards]
        if part:
            pending.append([i, part, 0, list(range(i, len(cases), shards)), None, None])
    for job in pending:
        job[4], job[5] = start(job[0], job[1], job[2])
    while pending:
        job = pending.pop(0)
        i, part, gen, idxs, p, fout = job
        so, _ = p.communicate()
        got = []
        for line in open(fout):
            line = line.strip()
            if line:
                try:
                    got.append(json.loads(line))
                except Exception:
                    pass
        for k, g in enumerate(got[:len(part)]):
            results[idxs[k]] = g
        if p.returncode == 3 and got and got[-1].get("hang") and len(got) <= len(part):
            # restart behind the hung case
            n = len(got)
            rest, ridx = part[n:], idxs[n:]
            if rest:
                np_, nf = start(i, rest, gen + 1)
                pending.append([i, rest, gen + 1, ridx, np_, nf])
            continue
        if p.returncode != 0 or len(got) != len(part):
            log(so[-3000:])
            raise ToolError(f"vh {driver} shard {i}: rc={p.returncode}, {len(got)}/{len(part)} results")
    shutil.rmtree(d, ignore_errors=True)
    return [results[k] for k in range(len(cases))]


# ------------------------------------------------------------------ findings / verdicts
def load_known():
    p = os.path.join(ROOT, "known_findings.json")
    if not os.path.exists(p):
        return []
    return json.load(open(p))["findings"]


class Verdict:
    """Collects violations and known findings of one check run."""

    def __init__(self, pid):
        self.pid = pid
        self.known = {k["id"]: k for k in load_known()
                      if k.get("status") == "known" and pid in k.get("properties", [])}
        self.seen_known = {}
        self.violations = []
        os.makedirs(os.path.join(WORK, "replay", pid), exist_ok=True)

    def known_ids(self):
        return set(self.known)

    def is_known(self, fid):
        return fid in self.known

    def note_known(self, fid, what=None):
        if fid not in self.seen_known:
            self.seen_known[fid] = what or self.known[fid]["summary"]

    def violation(self, case, why):
        n = len(self.violations)
        path = os.path.join(WORK, "replay", self.pid, f"v{n}.json")
        if n < 50:
            with open(path, "w") as f:
                json.dump({"property": self.pid, "why": why, "case": case}, f, indent=1)
        self.violations.append((path, why))

    def finish(self):
        for fid, what in sorted(self.seen_known.items()):
            print(f"KNOWN-FINDING: property={self.pid} {fid}: {what}")
        for path, why in self.violations[:20]:
            print(f"VIOLATION property={self.pid} replay={path}")
            log("   ", str(why)[:600])
        return 1 if self.violations else 0


def write_evidence(pid, tier, seed, level, coverage, assumptions, wall_s, violations, extra=None):
    ensure_dirs()
    ev = {"property_id": pid, "tier": tier, "seed": seed, "level": level, "coverage": coverage,
          "assumptions": assumptions, "wall_s": round(wall_s, 1), "violations": violations}
    if extra:
        ev.update(extra)
    with open(os.path.join(ROOT, "evidence", f"{pid}.json"), "w") as f:
        json.dump(ev, f, indent=1, default=str)


def seed_tier(args):
    seed = int(os.environ.get("VERIF_SEED", "1") or 1)
    tier = args.tier or os.environ.get("VERIF_TIER") or "quick"
    if tier not in ("quick", "thorough"):
        tier = "quick"
    return seed, tier


def rows_key(rows):
    """Canonical multiset key of encoded rows."""
    return sorted(json.dumps(r) for r in rows)


def replay_file(pid, path):
    """Re-run the harness case stored in a replay file (SQL driver cases: a dict with "engine" and "steps") on the
    current tree and print what every step returns next to what the file recorded.  Returns None if the file holds no
    such case (the caller then runs the whole check again), 0 otherwise: a replay shows, it does not judge."""
    d = json.load(open(path))

    def find(x):
        if isinstance(x, dict):
            if "steps" in x and "engine" in x and all(isinstance(s, dict) for s in x["steps"]) and \
                    all(("sql" in s or "op" in s) for s in x["steps"]):
                return x
            for v in x.values():
                r = find(v)
                if r is not None:
                    return r
        if isinstance(x, list):
            for v in x:
                r = find(v)
                if r is not None:
                    return r
        return None
    case = find(d)
    if case is None:
        return None
    build()
    case = dict(case, id="replay")
    out = run_sharded("sql", [case], shards=1, tag=f"replay-{pid}", timeout=600)[0]
    print(f"replay of {path}: {d.get('why', '')[:300]}")
    for st, r in zip(case["steps"], out.get("res", [])):
        what = st.get("sql") or st.get("op")
        shown = (f"{len(r.get('rows', []))} rows {json.dumps(r.get('rows', [])[:8])[:300]}" if r.get("ok")
                 else f"ERR{' PANIC' if r.get('panic') else ''} {str(r.get('err'))[:200]}")
        print(f"  {str(what)[:160]}\n      -> {shown}")
    if out.get("hang") or "fatal" in out:
        print("  the case hangs or dies:", {k: v for k, v in out.items() if k != "res"})
    return 0


def tlaps(module):
    """Re-prove spec/proofs/<module>.tla from scratch in a scratch copy (TLAPS); -> number of obligations proved.
    A failing or missing prover is a tool error, never a verdict."""
    import tempfile
    ensure_dirs()
    d = tempfile.mkdtemp(prefix="tlaps-", dir=WORK)
    try:
        shutil.copy(os.path.join(SPEC, "proofs", module + ".tla"), d)
        p = subprocess.run(["timeout", "600", "tlapm", "--cleanfp", "--threads", "4", module + ".tla"], cwd=d,
                           stdout=subprocess.PIPE, stderr=subprocess.STDOUT, text=True)
        m = re.search(r"All (\d+) obligations? proved", p.stdout)
        if not m:
            log(p.stdout[-2000:])
            raise ToolError(f"TLAPS does not prove spec/proofs/{module}.tla")
        return {"module": module, "obligations_proved": int(m.group(1))}
    finally:
        shutil.rmtree(d, ignore_errors=True)
