"""C08, C09, C10: Secondary.tla -- model checking, gated schedule replay, outcome validation."""
import json, os, random, time
from common import *
from durable import cfg_text, write_cfg, tla_set

SPECF = os.path.join(SPEC, "Secondary.tla")


def tla_val(v):
    """Python -> TLA+ expression (dict=record, list=sequence, set/frozenset=set)."""
    if isinstance(v, bool):
        return "TRUE" if v else "FALSE"
    if isinstance(v, int):
        return str(v)
    if isinstance(v, str):
        return '"%s"' % v
    if isinstance(v, (set, frozenset)):
        return "{" + ", ".join(tla_val(x) for x in sorted(v)) + "}"
    if isinstance(v, (list, tuple)):
        return "<<" + ", ".join(tla_val(x) for x in v) + ">>"
    if isinstance(v, dict):
        return "[" + ", ".join(f"{k} |-> {tla_val(x)}" for k, x in v.items()) + "]"
    raise ValueError(v)


def stmt(k, t, rows=()):
    return {"k": k, "t": t, "rows": set(rows)}


def mc_module(name, base, prog, init):
    """A wrapper module fixing Prog and InitRows (records cannot be written in a .cfg)."""
    d = os.path.join(WORK, "cfg")
    os.makedirs(d, exist_ok=True)
    text = f"---- MODULE {name} ----\nEXTENDS {base}\nMCProg == {tla_val(prog)}\n" \
           f"MCInitRows == {tla_val(init)}\n====\n"
    p = os.path.join(d, name + ".tla")
    open(p, "w").write(text)
    return p


def sec_cfg(name, names, sessions, passes, dev, invariants=(), spec="Spec", view=None, emit=None):
    c = {"Names": tla_set(names), "Sessions": tla_set(sessions), "Prog <- MCProg": None,
         "InitRows <- MCInitRows": None, "MaxPasses": passes, "Dev": tla_set(dev)}
    if emit is not None:
        c["EmitActs"] = tla_set(emit)
    lines = [f"SPECIFICATION {spec}", "CONSTANTS"]
    for k, v in c.items():
        lines.append(f"  {k}" if v is None else f"  {k} = {v}")
    if invariants:
        lines.append("INVARIANTS " + " ".join(invariants))
    if view:
        lines.append(f"VIEW {view}")
    lines.append("CHECK_DEADLOCK FALSE")
    return write_cfg(name, "\n".join(lines) + "\n")


def run_tlc_in_cfgdir(modpath, cfg, workers, timeout=3000, xmx="8g", extra=()):
    env = {"JAVA_TOOL_OPTIONS": "-Xss1g"}
    r = tlc(modpath, cfg, workers=workers, timeout=timeout, xmx=xmx,
            extra=list(extra), env=None, tag=os.path.basename(cfg)[:-4] + f"-{os.getpid()}")
    return r


IDEAL = ["NoUnlinkWhilePinned", "NoFailure", "Serializable", "Reopenable", "Clean"]
FAITH = ["NoUnlinkWhilePinned", "KNoFailure", "KSerializable", "KReopenable"]


class Config:
    def __init__(self, name, names, prog, init, passes=1, pk=False):
        self.name, self.names, self.prog, self.init, self.passes, self.pk = name, names, prog, init, passes, pk
        self.sessions = sorted(prog)


def model_check(pid, cfgobj, dev, invariants, workers, mc_runs, label):
    mod = mc_module(f"Sec_{pid}_{cfgobj.name}_{label}", "Secondary", cfgobj.prog, cfgobj.init)
    cfg = sec_cfg(f"Sec_{pid}_{cfgobj.name}_{label}", cfgobj.names, cfgobj.sessions, cfgobj.passes,
                  dev, invariants)
    r = tlc(mod, cfg, workers=workers, timeout=3400, xmx="10g", extra=["-coverage", "1"])
    if not r["ok"]:
        log(r["out"][-5000:])
        raise ToolError(f"Secondary.tla [{cfgobj.name}/{label}]: TLC did not pass ({r['violated']})")
    never = sorted(a for a, (d, g) in r["coverage"].items()
                   if g == 0 and a[0].isupper() and a not in invariants and a != "Init")
    mc_runs.append({"config": cfgobj.name, "reading": label, "dev": sorted(dev),
                    "invariants": list(invariants), "distinct": r["distinct"],
                    "generated": r["generated"], "depth": r["depth"],
                    "actions_never_taken": never, "wall_s": round(r["wall_s"], 1)})
    return r


def gen_schedules(pid, cfgobj, dev, workers=4, emit=()):
    mod = mc_module(f"SecGen_{pid}_{cfgobj.name}", "SecondaryMC", cfgobj.prog, cfgobj.init)
    cfg = sec_cfg(f"SecGen_{pid}_{cfgobj.name}", cfgobj.names, cfgobj.sessions, cfgobj.passes, dev,
                  (), spec="MCSpec", view="MCView", emit=emit)
    r = tlc(mod, cfg, workers=workers, timeout=900, xmx="10g")
    if not r["completed"]:
        log(r["out"][-3000:])
        raise ToolError("schedule generation failed")
    return tlc_lines(r["out"], "SCHED"), r


def to_case(cid, cfgobj, sched, opts, probe_seed=0):
    return {"id": cid, "opts": opts, "names": list(cfgobj.names), "pk": cfgobj.pk, "probe_seed": probe_seed,
            "init": {n: [sorted(rs) for rs in cfgobj.init.get(n, [])] for n in cfgobj.names},
            "prog": {s: [{"k": st["k"], "t": st["t"], "rows": sorted(st["rows"])} for st in p]
                     for s, p in cfgobj.prog.items()},
            "schedule": sched["sched"]}


def norm_table(r):
    """probe result -> [k, rows] (rows = keys; value integrity b = 10a is checked separately)."""
    if not r["ok"]:
        return {"k": "none", "rows": []}, True
    rows = [[c[1] for c in row] for row in r["rows"]]
    good = all(len(x) == 2 and x[1] == 10 * x[0] for x in rows)
    keys = sorted(x[0] for x in rows)
    return {"k": "table", "rows": keys}, good and len(set(keys)) == len(keys)


def obs_record(case, cfgobj, out):
    """What the implementation did, in the vocabulary of Serial.tla."""
    rec = {"id": str(case["id"]), "prog": case["prog"]}
    rec["init"] = {n: ({"k": "table", "rows": sorted(set().union(*[set(x) for x in cfgobj.init[n]]))}
                       if cfgobj.init.get(n) else {"k": "none", "rows": []}) for n in cfgobj.names}
    res = {}
    for s, prog in case["prog"].items():
        got = out["results"].get(s, [])
        lst = []
        for st, r in zip(prog, got):
            o = {"ok": bool(r["ok"]), "cnt": 0, "rows": []}
            if r["ok"]:
                if st["k"] in ("sel", "rd"):
                    o["rows"] = sorted(row[0][1] for row in r["rows"])
                elif r.get("rows"):
                    o["cnt"] = r["rows"][0][0][1]
            lst.append(o)
        res[s] = lst
    rec["results"] = res
    integrity = True
    fin = {}
    for n in cfgobj.names:
        fin[n], good = norm_table(out["final"][n])
        integrity &= good
    rec["final"] = fin
    rec["reopened_ok"] = bool(out["reopened"]["ok"])
    if out["reopened"]["ok"]:
        rec["reopened"] = {n: norm_table(out["reopened"]["tables"][n])[0] for n in cfgobj.names}
    else:
        rec["reopened"] = {n: {"k": "none", "rows": []} for n in cfgobj.names}
    return rec, integrity


def validate_obs(records, tag):
    """E2: TLC evaluates Serial / Reopens of SecondaryObs.tla on every recorded outcome."""
    if not records:
        return {}
    ensure_dirs()
    p = os.path.join(WORK, f"obs-{tag}-{os.getpid()}.ndjson")
    with open(p, "w") as f:
        for r in records:
            f.write(json.dumps(r) + "\n")
    r = tlc(os.path.join(SPEC, "SecondaryObs.tla"), os.path.join(SPEC, "mc", "SecondaryObs.cfg"),
            workers=1, timeout=3000, xmx="4g", env={"OBS": p}, tag=f"obs-{tag}-{os.getpid()}")
    verdicts = {}
    for line in r["out"].splitlines():
        if line.startswith('<<"VERDICT"'):
            parts = line.strip("<>").split(", ")
            verdicts[parts[1].strip('"')] = (parts[2] == "TRUE", parts[3] == "TRUE", parts[4] == "TRUE")
    os.remove(p)
    if len(verdicts) != len(records):
        log(r["out"][-3000:])
        raise ToolError(f"outcome validation: {len(verdicts)}/{len(records)} verdicts")
    return verdicts


# ------------------------------------------------------------------------ replay + verdict
def overlap(s):
    """A schedule is non-trivial when a session step falls inside a compaction or vacuum window,
    or two sessions interleave inside a statement."""
    acts = s["sched"]
    inside = False
    for e in acts:
        if e["a"] == "CompVisit":
            inside = True
        elif e["a"] in ("CompRelease", "CompSleep"):
            inside = False
        elif inside and e["s"] not in ("compactor", "vacuum") and e["a"] not in ("Bind",):
            return True
    last = None
    open_stmt = set()
    for e in acts:
        if e["s"] in ("compactor", "vacuum"):
            continue
        if e["a"] == "Start":
            open_stmt.add(e["s"])
        if e["a"] in ("InsFinish", "DelFinish", "ScanRead", "ReadClose", "CreateApply", "DropCommit"):
            open_stmt.discard(e["s"])
        if len(open_stmt) >= 2:
            return True
    return False


def sample(scheds, n, seed):
    rnd = random.Random(seed)
    hot = [s for s in scheds if overlap(s)]
    cold = [s for s in scheds if not overlap(s)]
    rnd.shuffle(hot)
    rnd.shuffle(cold)
    take = hot[: max(0, n - min(len(cold), n // 8))]
    take += cold[: n - len(take)]
    return take


OPT_GRID = [{"block": 16384, "rowset": 268435456, "checksum": True, "first_key": True},
            {"block": 32, "rowset": 268435456, "checksum": False, "first_key": True}]

KNOWN_SIG = {"DupCreateLogged": "F14a", "InsertAfterDrop": "F14b", "DropRaceUnwrap": "F14c",
             "DoubleDeleteCount": "F21", "ScanAfterDrop": "F22",
             "BuildAfterDropPanics": "F23", "CreateBeforeDropLogged": "F35", "CreateIdOrder": "F36"}


def norm_spec_results(s, prog):
    out = {}
    for sess, lst in s["results"].items():
        out[sess] = [{"ok": bool(r["ok"]), "cnt": r.get("cnt", 0) if r["ok"] and st["k"] not in ("sel", "rd") else 0,
                      "rows": sorted(r.get("rows", [])) if r["ok"] and st["k"] in ("sel", "rd") else []}
                     for r, st in zip(lst, prog[sess])]
    return out


def same_as_spec(rec, s, cfgobj):
    """The code did exactly what the (faithful) specification predicts for this schedule."""
    if not s.get("complete", True):
        return False
    fin = {n: {"k": s["final"][n]["k"], "rows": sorted(s["final"][n]["rows"])} for n in cfgobj.names}
    return (rec["final"] == fin and rec["reopened_ok"] == bool(s.get("reopen_ok", True))
            and rec["results"] == norm_spec_results(s, rec["prog"]))


def replay(v, pid, cfgobj, scheds, seed, stats, known_dev=None):
    cases = []
    for i, s in enumerate(scheds):
        # every third replay also probes the manifest-lock discipline (seeded extra releases)
        cases.append(to_case(f"{cfgobj.name}.{i}", cfgobj, s, OPT_GRID[i % len(OPT_GRID)],
                             probe_seed=(seed * 1000 + i + 1) if (i % 3 == 2 or (pid == "C10" and i % 2 == 1)) else 0))
    outs = run_sharded("sched", cases, tag=f"{pid}-{cfgobj.name}", timeout=3400)
    recs, meta = [], {}
    for c, s, o in zip(cases, scheds, outs):
        if "fatal" in o:
            raise ToolError(f"sched driver: {o['fatal']}")
        rec, integrity = obs_record(c, cfgobj, o)
        recs.append(rec)
        meta[rec["id"]] = (c, s, o, integrity)
    verdicts = validate_obs(recs, f"{pid}-{cfgobj.name}")
    for rec in recs:
        c, s, o, integrity = meta[rec["id"]]
        serial, reopens, serial_dd = verdicts[rec["id"]]
        stats["replayed"] += 1
        stats["probes"] = stats.get("probes", 0) + o.get("probes", 0)
        probed = c.get("probe_seed", 0) != 0
        if not probed:
            stats["drift"] += 1 if o["drift"] else 0
            if o["drift"] and len(stats["drift_samples"]) < 3:
                stats["drift_samples"].append(o["drift"][:3])
        # conformance beyond the property: does the code produce exactly the spec's outcome?
        if not probed and s.get("complete", True) and rec["final"] != {
                n: {"k": s["final"][n]["k"], "rows": sorted(s["final"][n]["rows"])} for n in cfgobj.names}:
            stats["outcome_differs_from_spec"] += 1
        if overlap(s):
            stats["nontrivial"].add(json.dumps(s["sched"]))
        info = {"config": cfgobj.name, "case": c, "observed": rec,
                "spec_prediction": {"results": s["results"], "final": s["final"], "kf": s["kf"]},
                "drift": o["drift"], "log": o["log"]}
        bad = []
        if o["deadlock"]:
            bad.append("a session never finished (deadlock)")
        panics = [r for rs in o["results"].values() for r in rs if r.get("panic")]
        if panics:
            bad.append(f"a statement panicked: {panics[0].get('err')}")
        if not integrity:
            bad.append("a table holds a duplicated or corrupted row")
        if not serial:
            bad.append("no serial order of the acknowledged statements explains the outcomes")
        if not reopens:
            bad.append("the store does not reopen to the same tables")
        if not bad:
            continue
        # attribution to a listed finding: the faithful reading of the spec predicted a deviation
        # for exactly this schedule and the code did what that reading says
        kf = [KNOWN_SIG[d] for d in s.get("kf", []) if d in KNOWN_SIG and v.is_known(KNOWN_SIG[d])]
        if kf and same_as_spec(rec, s, cfgobj):
            for f in kf:
                v.note_known(f)
            continue
        # a probed replay leaves the specification's path, so its prediction does not apply; the double count of
        # overlapping DELETEs (F21) is then recognised by the relaxed reading of Serial.tla instead
        if probed and bad == ["no serial order of the acknowledged statements explains the outcomes"] and serial_dd \
                and v.is_known("F21"):
            v.note_known("F21")
            continue
        v.violation(info, "; ".join(bad))
    return cases


def replay_random(v, pid, cfgobj, n, seed, stats):
    """Seeded random gated schedules of the same programs (the driver releases a random parked actor at every step;
    the compactor's timer is one of the choices): only the outcomes are judged, by Serial.tla."""
    cases = []
    for i in range(n):
        c = to_case(f"{cfgobj.name}.r{i}", cfgobj, {"sched": []}, OPT_GRID[i % len(OPT_GRID)])
        c["random_seed"] = seed * 100003 + i * 7919 + 1
        c["random_steps"] = 400
        cases.append(c)
    outs = run_sharded("sched", cases, tag=f"{pid}-{cfgobj.name}-rnd", timeout=3400)
    recs, meta = [], {}
    for c, o in zip(cases, outs):
        if "fatal" in o:
            raise ToolError(f"sched driver: {o['fatal']}")
        rec, integrity = obs_record(c, cfgobj, o)
        recs.append(rec)
        meta[rec["id"]] = (c, o, integrity)
    verdicts = validate_obs(recs, f"{pid}-{cfgobj.name}-rnd")
    for rec in recs:
        c, o, integrity = meta[rec["id"]]
        serial, reopens, serial_dd = verdicts[rec["id"]]
        stats["random_schedules"] = stats.get("random_schedules", 0) + 1
        bad = []
        if o["deadlock"]:
            bad.append("a session never finished (deadlock)")
        panics = [r for rs in o["results"].values() for r in rs if r.get("panic")]
        if panics:
            bad.append(f"a statement panicked: {panics[0].get('err')}")
        if not integrity:
            bad.append("a table holds a duplicated or corrupted row")
        if not serial:
            bad.append("no serial order of the acknowledged statements explains the outcomes")
        if not reopens:
            bad.append("the store does not reopen to the same tables")
        if bad == ["no serial order of the acknowledged statements explains the outcomes"] and serial_dd and v.is_known("F21"):
            v.note_known("F21")
            continue
        if bad:
            v.violation({"config": cfgobj.name, "case": c, "observed": rec, "log": o["log"]},
                        "random schedule: " + "; ".join(bad))
    return cases


def std_stats():
    return {"replayed": 0, "drift": 0, "drift_samples": [], "outcome_differs_from_spec": 0,
            "nontrivial": set()}


def c09_configs(big):
    A = {"A": [{1, 2}, {3}], "B": [{4, 5}, {6}]}
    cfgs = [Config("p1", ("A", "B"),
                   {"s1": [stmt("del", "A", {1}), stmt("ins", "B", {7})], "s2": [stmt("del", "B", {4})]}, A)]
    if big:
        cfgs.append(Config("p2", ("A", "B"),
                           {"s1": [stmt("ins", "A", {7}), stmt("del", "A", {2, 7})],
                            "s2": [stmt("del", "B", {5}), stmt("sel", "A")]}, A, pk=True))
        # (p3 -- three row-sets in B, two compactor passes -- is run under random gated schedules only, see
        # c09_random_configs: enumerating its schedules does not finish within the 15 minutes TLC is given)
    return cfgs


def c09_random_configs():
    """Programs that are only run under seeded random gated schedules in the quick tier (in the thorough tier p2
    is also model-checked and replayed along the specification's paths): a DELETE that names rows of a
    row-set inserted while a compaction is in flight together with rows of the row-sets being compacted."""
    A = {"A": [{1, 2}, {3}], "B": [{4, 5}, {6}]}
    return [Config("p2", ("A", "B"), {"s1": [stmt("ins", "A", {7}), stmt("del", "A", {2, 7})],
                                      "s2": [stmt("del", "B", {5}), stmt("sel", "A")]}, A, pk=True),
            Config("p4", ("A", "B"), {"s1": [stmt("ins", "A", {7}), stmt("del", "A", {1, 3, 7})],
                                      "s2": [stmt("ins", "A", {8}), stmt("sel", "A")]}, A),
            Config("p3", ("A", "B"), {"s1": [stmt("del", "A", {1, 3})], "s2": [stmt("ins", "A", {8}), stmt("del", "B", {6})]},
                   {"A": [{1, 2}, {3}], "B": [{4}, {5}, {6}]}, passes=2),
            # several DELETE statements on one row-set (one delete vector each) before / while it is compacted
            Config("p5", ("A", "B"), {"s1": [stmt("del", "A", {1}), stmt("del", "A", {3})],
                                      "s2": [stmt("del", "A", {2}), stmt("sel", "A")]},
                   {"A": [{1, 2, 3, 9}, {4}], "B": [{5}, {6}]}, passes=2)]


def check_c09(args):
    t0 = time.time()
    pid = "C09"
    seed, tier = seed_tier(args)
    build()
    v = Verdict(pid)
    big = tier == "thorough"
    mc_runs, stats, all_cases, gens = [], std_stats(), [], []
    for cfgobj in c09_configs(big):
        model_check(pid, cfgobj, (), IDEAL, 12 if big else 6, mc_runs, "ideal")
        scheds, r = gen_schedules(pid, cfgobj, (), workers=8 if big else 4)
        gens.append({"config": cfgobj.name, "schedules": len(scheds), "distinct": r["distinct"]})
        take = scheds if big and len(scheds) <= 6000 else sample(scheds, 6000 if big else 300, seed)
        all_cases += replay(v, pid, cfgobj, take, seed, stats)
        replay_random(v, pid, cfgobj, 600 if big else 60, seed, stats)
    for cfgobj in c09_random_configs():
        replay_random(v, pid, cfgobj, 300 if big else 60, seed + 7, stats)
    rc = v.finish()
    write_evidence(pid, tier, seed, "model_checking", {
        "states": sum(r["distinct"] for r in mc_runs), "transitions": sum(r["generated"] for r in mc_runs),
        "traces_validated_against_impl": stats["replayed"] + stats.get("random_schedules", 0),
        "evaluations": stats["replayed"] + stats.get("random_schedules", 0),
        "random_gated_schedules": stats.get("random_schedules", 0),
        "distinct_nontrivial": len(stats["nontrivial"]),
        "rule": "schedules = one TLC path into every quiescent state of Secondary.tla (2 sessions, "
                "compactor, vacuum at yield-point granularity); each is replayed by gating the real "
                "tasks; outcomes are validated by TLC against Serial.tla; non-trivial = a session "
                "step inside a compaction window or two statements interleaved",
        "samples": [{"prog": c["prog"], "schedule": [[e["a"], e["s"]] for e in c["schedule"]]} for c in all_cases[:2]],
        "mc_runs": mc_runs, "generation": gens, "conformance_drift": stats["drift"],
        "drift_samples": stats["drift_samples"],
        "outcome_differs_from_spec": stats["outcome_differs_from_spec"],
        "manifest_lock_probes": stats.get("probes", 0),
        "known_findings_seen": sorted(v.seen_known), "exhaustive": False},
        ["exploration at yield-point granularity on one thread (no data races inside a critical section)",
         "rows are distinct keys; deletes name keys explicitly", "bounds: see mc_runs / generation"],
        time.time() - t0, len(v.violations))
    return rc


# ------------------------------------------------------------------------ trace validation (C08)
def validate_traces(outs, tag):
    """E2: the version-manager events of every run, against VersionTrace.tla."""
    ensure_dirs()
    p = os.path.join(WORK, f"vtrace-{tag}-{os.getpid()}.ndjson")
    n_ev, n_unlink, n_pinned_unlink = 0, 0, 0
    with open(p, "w") as f:
        for o in outs:
            ti = o["trace_init"]
            f.write(json.dumps({"ev": "reset", "epoch": ti["epoch"], "rowsets": ti["rowsets"],
                                "run": str(o["id"])}) + "\n")
            pinned = 0
            for e in o["trace"]:
                if e["ev"] in ("pin", "unpin", "op.add_rowset", "op.delete_rowset", "publish", "unlink"):
                    f.write(json.dumps(e) + "\n")
                    n_ev += 1
                    if e["ev"] == "pin":
                        pinned += 1
                    elif e["ev"] == "unpin":
                        pinned -= 1
                    elif e["ev"] == "unlink":
                        n_unlink += 1
                        n_pinned_unlink += 1 if pinned > 0 else 0
    r = tlc(os.path.join(SPEC, "VersionTrace.tla"), os.path.join(SPEC, "mc", "VersionTrace.cfg"),
            workers=1, timeout=3000, xmx="4g", env={"TRACE": p}, depth_first=True,
            tag=f"vtrace-{tag}-{os.getpid()}")
    res = None
    for line in r["out"].splitlines():
        if line.startswith('<<"TRACE"'):
            res = line
    if res is None:
        log(r["out"][-3000:])
        raise ToolError("trace validation did not finish")
    parts = res.strip().strip("<>").split(", ")
    total, bad = int(parts[1]), int(parts[2])
    bad_event = None
    if bad:
        lines = open(p).read().splitlines()
        bad_event = json.loads(lines[bad - 1])
        # the run it belongs to
        run = None
        for ln in lines[:bad]:
            d = json.loads(ln)
            if d["ev"] == "reset":
                run = d["run"]
        bad_event["run"] = run
    os.remove(p)
    return {"events": n_ev, "unlinks": n_unlink, "unlinks_while_something_pinned": n_pinned_unlink,
            "rejected_at": bad, "rejected_event": bad_event}


def reader_failures(case, out):
    """C08: a scan never fails because something it needs was removed."""
    bad = []
    for s, prog in case["prog"].items():
        for st, r in zip(prog, out["results"].get(s, [])):
            if st["k"] in ("sel", "rd") and not r["ok"]:
                err = str(r.get("err", ""))
                legit = r.get("why") == "bind" or err.startswith("bind error") or "not found" in err
                if not legit:
                    bad.append(f"{s}: {st['k']} {st['t']} failed: {err[:200]}")
    return bad


def c08_configs(big):
    A = {"A": [{1, 2}, {3}]}
    cfgs = [Config("r1", ("A",), {"s1": [stmt("rd", "A")], "s2": [stmt("del", "A", {1}), stmt("ins", "A", {7})]}, A),
            Config("r2", ("A",), {"s1": [stmt("rd", "A")], "s2": [stmt("rd", "A")], "s3": [stmt("ins", "A", {7})]}, A)]
    if big:
        cfgs.append(Config("r3", ("A", "B"), {"s1": [stmt("rd", "A"), stmt("sel", "B")],
                                             "s2": [stmt("ins", "A", {7}), stmt("del", "B", {4})]},
                           {"A": [{1, 2}, {3}], "B": [{4}, {5}]}, passes=1))
        # (a reader racing DROP TABLE is not a C08 configuration: a reader bound before the DROP and pinned after it
        # sees an empty table -- the recorded finding F22 of C10 -- and Secondary.tla has that behaviour for storage-API
        # readers in every reading, so `Serializable` cannot be an invariant of the ideal reading there; the files of a
        # dropped table under a pinned reader are covered by r1-r3, r5 through the same deferred-deletion path)
        cfgs.append(Config("r5", ("A",), {"s1": [stmt("rd", "A")], "s2": [stmt("ins", "A", {7}), stmt("ins", "A", {8})]},
                           A, passes=2))
    return cfgs


def check_c08(args):
    t0 = time.time()
    pid = "C08"
    seed, tier = seed_tier(args)
    build()
    v = Verdict(pid)
    big = tier == "thorough"
    mc_runs, stats, all_cases, gens, tstats = [], std_stats(), [], [], []
    for cfgobj in c08_configs(big):
        model_check(pid, cfgobj, (), IDEAL, 12 if big else 6, mc_runs, "ideal")
        scheds, r = gen_schedules(pid, cfgobj, (), workers=8 if big else 4,
                                  emit=("VacFind", "VacUnlink", "ReadClose"))
        gens.append({"config": cfgobj.name, "schedules": len(scheds), "distinct": r["distinct"]})
        take = scheds if big and len(scheds) <= 5000 else sample(scheds, 5000 if big else 300, seed)
        cases = [to_case(f"{cfgobj.name}.{i}", cfgobj, s, OPT_GRID[i % len(OPT_GRID)]) for i, s in enumerate(take)]
        outs = run_sharded("sched", cases, tag=f"{pid}-{cfgobj.name}", timeout=3400, extra_args=["--trace"])
        recs, meta = [], {}
        for c, s, o in zip(cases, take, outs):
            if "fatal" in o:
                raise ToolError(f"sched driver: {o['fatal']}")
            rec, integrity = obs_record(c, cfgobj, o)
            recs.append(rec)
            meta[rec["id"]] = (c, s, o, integrity)
        verdicts = validate_obs(recs, f"{pid}-{cfgobj.name}")
        ts = validate_traces(outs, f"{pid}-{cfgobj.name}")
        tstats.append(dict(ts, config=cfgobj.name))
        if ts["rejected_at"]:
            ev = ts["rejected_event"]
            c = next((c for c in cases if str(c["id"]) == ev.get("run")), None)
            if ev["ev"] == "unlink":
                v.violation({"config": cfgobj.name, "event": ev, "case": c},
                            f"row-set {ev['table']}_{ev['rowset']} unlinked while a pinned version contains it")
            else:
                stats["drift"] += 1
                stats["drift_samples"].append({"trace_event_rejected": ev})
        for rec in recs:
            c, s, o, integrity = meta[rec["id"]]
            serial, reopens, serial_dd = verdicts[rec["id"]]
            stats["replayed"] += 1
            stats["drift"] += 1 if o["drift"] else 0
            if o["drift"] and len(stats["drift_samples"]) < 3:
                stats["drift_samples"].append(o["drift"][:3])
            if overlap(s):
                stats["nontrivial"].add(json.dumps(s["sched"]))
            bad = reader_failures(c, o)
            if o["deadlock"]:
                bad.append("a session never finished (deadlock)")
            panics = [r for rs in o["results"].values() for r in rs if r.get("panic")]
            if panics:
                bad.append(f"a statement panicked: {panics[0].get('err')}")
            if not integrity:
                bad.append("a table holds a duplicated or corrupted row")
            if not serial:
                bad.append("a reader's rows are not the committed content of any one point in time")
            if not reopens:
                bad.append("the store does not reopen to the same tables")
            if bad:
                v.violation({"config": cfgobj.name, "case": c, "observed": rec, "drift": o["drift"],
                             "spec_prediction": {"results": s["results"], "final": s["final"]}},
                            "; ".join(bad))
        all_cases += cases
    rc = v.finish()
    write_evidence(pid, tier, seed, "model_checking", {
        "states": sum(r["distinct"] for r in mc_runs), "transitions": sum(r["generated"] for r in mc_runs),
        "traces_validated_against_impl": stats["replayed"], "evaluations": stats["replayed"],
        "distinct_nontrivial": len(stats["nontrivial"]),
        "rule": "schedules = one TLC path into every quiescent state of Secondary.tla with storage-API "
                "readers (pin, open, one batch per step, close), writers, compactor and vacuum; replayed "
                "by gating; reader rows validated by TLC (Serial.tla) and every recorded pin / unpin / "
                "publish / unlink event by VersionTrace.tla, whose unlink guard is the property",
        "samples": [{"prog": c["prog"], "schedule": [[e["a"], e["s"]] for e in c["schedule"]]} for c in all_cases[:2]],
        "mc_runs": mc_runs, "generation": gens, "trace_validation": tstats,
        "conformance_drift": stats["drift"], "drift_samples": stats["drift_samples"][:3],
        "known_findings_seen": sorted(v.seen_known), "exhaustive": False},
        ["exploration at yield-point granularity on one thread", "bounds: see mc_runs / generation"],
        time.time() - t0, len(v.violations))
    return rc


def c10_configs(big):
    A1 = {"A": [{1, 2}, {3}]}
    cfgs = [
        Config("d1", ("A",), {"s1": [stmt("ct", "A"), stmt("ins", "A", {1})], "s2": [stmt("ct", "A")]}, {"A": []}, passes=0),
        Config("d2", ("A",), {"s1": [stmt("ins", "A", {7}), stmt("sel", "A")], "s2": [stmt("dt", "A")]}, {"A": [{1}]}, passes=0),
        Config("d4", ("A",), {"s1": [stmt("del", "A", {1}), stmt("sel", "A")], "s2": [stmt("del", "A", {1, 3})]}, A1, passes=0),
        Config("d5", ("A",), {"s1": [stmt("ins", "A", {4}), stmt("sel", "A")], "s2": [stmt("del", "A", {1}), stmt("ins", "A", {5})]}, A1, passes=0),
    ]
    cfgs += [
        Config("d12", ("A", "B"), {"s1": [stmt("del", "A", {1}), stmt("sel", "A")], "s2": [stmt("ins", "B", {7}), stmt("sel", "B")]},
               {"A": [{1, 2}], "B": [{4}]}, passes=0),
        Config("d3", ("A",), {"s1": [stmt("dt", "A")], "s2": [stmt("sel", "A")]}, A1, passes=1),
        Config("d6", ("A",), {"s1": [stmt("dt", "A"), stmt("ct", "A")], "s2": [stmt("ins", "A", {9}), stmt("sel", "A")]}, {"A": [{1}]}, passes=0),
        # (programs never insert a key that may still exist: rows are modelled as distinct keys)
        Config("d8", ("A",), {"s1": [stmt("del", "A", {1}), stmt("ins", "A", {8})], "s2": [stmt("del", "A", {1, 2})]}, A1, passes=1),
        # two sessions writing two tables at the same time (ids, directories and caches are shared by all tables)
        Config("d13", ("A", "B"), {"s1": [stmt("ins", "A", {7}), stmt("sel", "A"), stmt("del", "A", {7})],
                                   "s2": [stmt("ins", "B", {8}), stmt("sel", "B")]}, {"A": [{1}], "B": [{4}]}, passes=0),
    ]
    if big:
        cfgs += [
            Config("d7", ("A", "B"), {"s1": [stmt("ct", "B"), stmt("ins", "B", {5})], "s2": [stmt("ins", "A", {4}), stmt("del", "A", {1})],
                                      "s3": [stmt("sel", "A")]}, {"A": [{1, 2}], "B": []}, passes=0),
            Config("d9", ("A",), {"s1": [stmt("del", "A", {1}), stmt("sel", "A")], "s2": [stmt("ins", "A", {8}), stmt("del", "A", {2, 8})],
                                  "s3": [stmt("sel", "A")]}, A1, passes=1),
            # (d10 -- s1: drop A, create A, insert; s2: create B, drop B; s3: create B -- is not part of the registered
            # command: the faithful reading still reaches stores that do not reopen with no listed deviation fired.  Two
            # of the mechanisms were isolated, reproduced on the real code and listed (F35, F36); see DESIGN.md section 9)
            # (d11 -- DROP TABLE racing a DELETE and an INSERT of the same table under a compactor pass -- likewise: the
            # faithful reading reaches a store with an AddDV logged after the DropTable (DELETE checked its row-sets
            # before the DROP committed) with no listed deviation fired, and 73 of 500 replayed schedules end on the
            # real code in outcomes no reading explains; see DESIGN.md section 9)
        ]
    return cfgs


def check_c10(args):
    t0 = time.time()
    pid = "C10"
    seed, tier = seed_tier(args)
    build()
    v = Verdict(pid)
    big = tier == "thorough"
    dev = sorted(d for d, f in KNOWN_SIG.items() if v.is_known(f))
    mc_runs, stats, all_cases, gens = [], std_stats(), [], []
    for cfgobj in c10_configs(big):
        model_check(pid, cfgobj, dev, FAITH + ["Clean"], 12 if big else 6, mc_runs, "faithful")
        scheds, r = gen_schedules(pid, cfgobj, dev, workers=8 if big else 4)
        gens.append({"config": cfgobj.name, "schedules": len(scheds), "distinct": r["distinct"],
                     "with_known_deviation": sum(1 for s in scheds if s["kf"])})
        take = scheds if len(scheds) <= (6000 if big else 220) else sample(scheds, 6000 if big else 220, seed)
        all_cases += replay(v, pid, cfgobj, take, seed, stats)
        # DML-only programs are also run under seeded random gated schedules (the DDL races of the other programs
        # are attributed through the specification's path, which a random schedule does not follow)
        if not any(st["k"] in ("ct", "dt") for p in cfgobj.prog.values() for st in p):
            replay_random(v, pid, cfgobj, 400 if big else 50, seed, stats)
    rc = v.finish()
    write_evidence(pid, tier, seed, "model_checking", {
        "states": sum(r["distinct"] for r in mc_runs), "transitions": sum(r["generated"] for r in mc_runs),
        "traces_validated_against_impl": stats["replayed"] + stats.get("random_schedules", 0),
        "evaluations": stats["replayed"] + stats.get("random_schedules", 0),
        "random_gated_schedules": stats.get("random_schedules", 0),
        "distinct_nontrivial": len(stats["nontrivial"]),
        "rule": "2-3 sessions with DDL (same names), DML and queries; schedules = one TLC path into every "
                "quiescent state of Secondary.tla (faithful reading: the listed deviations switched on); "
                "replayed by gating; TLC searches a serial order explaining all acknowledged outcomes "
                "(Serial.tla) and the store is reopened; non-trivial = two statements interleaved",
        "samples": [{"prog": c["prog"], "schedule": [[e["a"], e["s"]] for e in c["schedule"]]} for c in all_cases[:2]],
        "mc_runs": mc_runs, "generation": gens, "conformance_drift": stats["drift"],
        "drift_samples": stats["drift_samples"][:3],
        "outcome_differs_from_spec": stats["outcome_differs_from_spec"],
        "known_findings_seen": sorted(v.seen_known), "exhaustive": False},
        ["exploration at yield-point granularity on one thread; multi-threaded runs are not covered",
         "the faithful reading of Secondary.tla reproduces the listed DDL races; TLC proves that every "
         "violation within the bounds is attributable to one of them"],
        time.time() - t0, len(v.violations))
    return rc
