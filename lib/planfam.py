"""C01, plan-level rules: a directed family of query shapes on which the plan rewrite rules of
src/planner/rules/plan.rs act (predicate push-down through outer / inner / cross joins, through aggregations
and projections, join-type changes, hash-join key extraction, filters over derived tables, HAVING, top-n over
joins).  Every left-join shape is combined with every kind of WHERE predicate over the NULL-padded side
(NULL-accepting, NULL-rejecting, mixed), over data with unmatched rows, NULL keys and duplicates."""
import sqlgen as G
from sqlgen import INT, STR, BOOL

DATA = [
    {"t1": [[1, 1, "a"], [2, 2, "b"], [2, None, "ab"], [3, 0, None], [None, 1, ""], [None, 2, "a"], [None, 1, "b"]],
     "t2": [[1, 5, "a"], [2, 0, None], [4, 1, "b"], [None, 2, "a"]],
     "t3": [[1, 1], [2, 3], [2, None], [5, 0]]},
    {"t1": [[0, 0, ""], [1, None, "a"], [1, 3, "a"], [4, 2, "b"]],
     "t2": [[1, 1, "b"], [1, None, "b"], [3, 3, None]],
     "t3": [[None, None], [0, 2], [4, 4]]},
]


def C(al, c, ty=INT):
    return ("col", al, c, ty)


def K(v):
    return ("ci", v)


def B(op, l, r):
    return ("bin", op, l, r, BOOL)


def AND(l, r):
    return ("bin", "and", l, r, BOOL)


def OR(l, r):
    return ("bin", "or", l, r, BOOL)


def NOT(e):
    return ("not", e, BOOL)


def ISN(e, neg=False):
    return ("isnull", e, neg, BOOL)


BASE = dict(where=None, grp=[], hav=None, agg=False, dist=False, ord=[], lim=-1, off=0)


def right_preds(r="x2", l="x1"):
    """WHERE predicates over the NULL-padded side of `l LEFT JOIN r`."""
    return [
        ISN(C(r, "a")), ISN(C(r, "b")), ISN(C(r, "b"), True), ISN(C(r, "c", STR)),
        OR(B(">", C(r, "b"), K(0)), B("=", C(l, "b"), K(2))), OR(B("=", C(r, "b"), K(5)), ISN(C(r, "a"))),
        NOT(B("=", C(r, "b"), K(5))), B("=", ("case", ISN(C(r, "b")), K(1), K(0), INT), K(1)),
        ("inl", C(r, "b"), [0, 5], False, BOOL), ("inl", C(r, "b"), [0, 5], True, BOOL),
        ("inx", C(r, "b"), ("lst", C(r, "a"), K(1), INT), False, BOOL), ("inx", C(l, "b"), ("lst", C(r, "a"), C(r, "b"), INT), True, BOOL),
        B(">", C(r, "b"), K(0)), B(">", C(l, "b"), K(0)), AND(ISN(C(r, "a")), B(">", C(l, "b"), K(0))),
        ISN(("bin", "+", C(r, "b"), K(1), INT)), B("=", C(r, "b"), C(l, "b")), OR(B("<", C(r, "b"), C(l, "b")), ISN(C(r, "b"))),
        ("between", C(r, "b"), K(0), K(2), False, BOOL), ("between", C(r, "b"), K(0), K(2), True, BOOL),
        OR(B("=", C(r, "c", STR), ("cs", "a")), ISN(C(r, "c", STR))),
    ]


def family():
    qs = []
    t = lambda name, al: ("t", name, al)
    on1 = B("=", C("x1", "a"), C("x2", "a"))
    on2 = AND(on1, B("=", C("x1", "b"), C("x2", "b")))
    sels = [
        ([(C("x1", "a"), "c1"), (C("x1", "b"), "c2"), (C("x2", "a"), "c3"), (C("x2", "b"), "c4")], {}),
        ([(("agg", "count*"), "c1"), (("agg", "count", C("x2", "a"), INT), "c2")], {"agg": True}),
        ([(C("x1", "a"), "c1"), (("agg", "count", C("x2", "b"), INT), "c2"), (("agg", "count*"), "c3")],
         {"agg": True, "grp": [C("x1", "a")]}),
    ]
    # 1. LEFT JOIN x WHERE over the padded side x projection kinds
    for on in (on1, on2):
        frm = ("join", "left", t("t1", "x1"), t("t2", "x2"), on)
        for p in right_preds():
            for sel, extra in sels:
                qs.append(dict(BASE, sel=sel, frm=frm, where=p, **extra))
    # 2. two outer joins, filter on the outermost padded side
    frm2 = ("join", "left", ("join", "left", t("t1", "x1"), t("t2", "x2"), on1), t("t3", "x3"),
            B("=", C("x2", "b"), C("x3", "a")))
    for p in right_preds("x3", "x1") + [ISN(C("x2", "a")), OR(ISN(C("x2", "a")), B(">", C("x3", "b"), K(0)))]:
        if any(isinstance(x, tuple) and x[:3] == ("col", "x3", "c") for x in _walk(p)):
            continue
        qs.append(dict(BASE, sel=[(C("x1", "a"), "c1"), (C("x2", "b"), "c2"), (C("x3", "b"), "c3")], frm=frm2, where=p))
    # 3. inner / cross joins with predicates over both sides
    both = [OR(B(">", C("x1", "b"), C("x2", "b")), ISN(C("x2", "c", STR))), AND(B("=", C("x1", "a"), C("x2", "a")), B("<>", C("x1", "b"), C("x2", "b"))),
            AND(B("=", C("x1", "a"), C("x2", "a")), B("<>", C("x1", "a"), C("x2", "a"))), OR(B("=", C("x1", "a"), C("x2", "a")), B("=", C("x1", "b"), C("x2", "b"))),
            AND(B("=", C("x1", "a"), C("x2", "a")), ("inl", C("x1", "a"), [1, 2], False, BOOL)),
            ("inx", C("x1", "a"), ("lst", C("x2", "a"), C("x2", "b"), INT), False, BOOL),
            AND(B("=", C("x1", "a"), C("x2", "a")), ("inx", C("x1", "b"), ("lst", C("x2", "b"), K(2), INT), True, BOOL)),
            AND(B("=", C("x1", "a"), C("x2", "a")), ("between", C("x2", "a"), K(1), K(2), False, BOOL)),
            AND(B("=", ("bin", "+", C("x1", "a"), K(1), INT), C("x2", "a")), ISN(C("x1", "b"), True))]
    for p in both:
        for frm in (("join", "cross", t("t1", "x1"), t("t2", "x2"), None), ("join", "inner", t("t1", "x1"), t("t2", "x2"), B(">=", C("x1", "a"), K(0)))):
            qs.append(dict(BASE, sel=[(C("x1", "a"), "c1"), (C("x1", "b"), "c2"), (C("x2", "a"), "c3"), (C("x2", "b"), "c4")], frm=frm, where=p))
    # 4. filters above aggregations / DISTINCT (derived tables) and HAVING
    agg_sub = dict(BASE, sel=[(C("y", "a"), "d1"), (("agg", "count", C("y", "b"), INT), "d2"), (("agg", "max", C("y", "b"), INT), "d3")],
                   frm=t("t1", "y"), grp=[C("y", "a")], agg=True)
    dcols = [("d1", INT), ("d2", INT), ("d3", INT)]
    for p in [B(">", C("x", "d2"), K(0)), ISN(C("x", "d1")), B("=", C("x", "d1"), K(2)), ISN(C("x", "d3")), OR(B("=", C("x", "d1"), K(1)), B("=", C("x", "d2"), K(0))),
              AND(B(">=", C("x", "d1"), K(1)), B("<=", C("x", "d1"), K(2)))]:
        qs.append(dict(BASE, sel=[(C("x", "d1"), "c1"), (C("x", "d2"), "c2"), (C("x", "d3"), "c3")], frm=("sub", agg_sub, "x", dcols), where=p))
    dist_sub = dict(BASE, sel=[(C("y", "a"), "d1"), (C("y", "b"), "d2")], frm=t("t1", "y"), dist=True)
    for p in [ISN(C("x", "d2")), B(">", C("x", "d1"), K(1))]:
        qs.append(dict(BASE, sel=[(C("x", "d1"), "c1"), (C("x", "d2"), "c2")], frm=("sub", dist_sub, "x", [("d1", INT), ("d2", INT)]), where=p))
    for h in [B(">", ("agg", "count*"), K(1)), ISN(C("x1", "a")), ISN(("agg", "max", C("x1", "b"), INT)), B("=", ("agg", "count", C("x1", "b"), INT), K(0))]:
        qs.append(dict(BASE, sel=[(C("x1", "a"), "c1"), (("agg", "count*"), "c2")], frm=t("t1", "x1"), grp=[C("x1", "a")], agg=True, hav=h))
    # 5. derived table on the padded side of a left join, filter on it
    rsub = dict(BASE, sel=[(C("y", "a"), "d1"), (("bin", "+", C("y", "b"), K(1), INT), "d2")], frm=t("t2", "y"), where=B(">=", C("y", "b"), K(0)))
    frm5 = ("join", "left", t("t1", "x1"), ("sub", rsub, "x2", [("d1", INT), ("d2", INT)]), B("=", C("x1", "a"), C("x2", "d1")))
    for p in [ISN(C("x2", "d1")), ISN(C("x2", "d2"), True), OR(B(">", C("x2", "d2"), K(1)), ISN(C("x2", "d2")))]:
        qs.append(dict(BASE, sel=[(C("x1", "a"), "c1"), (C("x2", "d2"), "c2")], frm=frm5, where=p))
    # 5b. aggregation / DISTINCT / ORDER BY over a derived table that is itself ordered (sort aggregation,
    # useless-order): NULL keys, duplicates, a prefix of the keys
    for ords in ([(0, "asc")], [(0, "asc"), (1, "asc")], [(0, "desc")]):
        osub = dict(BASE, sel=[(C("y", "a"), "d1"), (C("y", "b"), "d2")], frm=t("t1", "y"), ord=ords)
        ofrm = ("sub", osub, "x", [("d1", INT), ("d2", INT)])
        qs.append(dict(BASE, sel=[(C("x", "d1"), "c1"), (("agg", "count*"), "c2"), (("agg", "sum", C("x", "d2"), INT), "c3")], frm=ofrm,
                       grp=[C("x", "d1")], agg=True))
        qs.append(dict(BASE, sel=[(C("x", "d1"), "c1"), (C("x", "d2"), "c2"), (("agg", "count*"), "c3")], frm=ofrm,
                       grp=[C("x", "d1"), C("x", "d2")], agg=True))
        qs.append(dict(BASE, sel=[(C("x", "d1"), "c1")], frm=ofrm, dist=True))
        qs.append(dict(BASE, sel=[(C("x", "d1"), "c1"), (C("x", "d2"), "c2")], frm=ofrm, ord=[(0, "asc"), (1, "desc")]))
    # 6. ORDER BY + LIMIT over joins
    for frm in (("join", "left", t("t1", "x1"), t("t2", "x2"), on1), ("join", "inner", t("t1", "x1"), t("t2", "x2"), on1)):
        for lim, off in ((2, 0), (3, 1), (10, 2)):
            qs.append(dict(BASE, sel=[(C("x1", "a"), "c1"), (C("x1", "b"), "c2"), (C("x2", "b"), "c3"), (C("x1", "c", STR), "c4")], frm=frm,
                           ord=[(0, "asc"), (2, "desc"), (1, "asc"), (3, "asc")], lim=lim, off=off))
    return qs


def _walk(e):
    out = []
    if isinstance(e, tuple):
        out.append(e)
        for x in e[1:]:
            out += _walk(x)
    return out


# key tables of the disk engine (PRIMARY KEY on a, not enforced unique): scans are ordered by the key, which is
# only a prefix of what these queries need (order analysis: useless-order, sort-agg, merge-join rules)
PK_DATA = {"t1": [[1, 3, "a"], [1, 1, "b"], [2, 2, "a"], [1, 3, "c"], [2, 1, ""], [1, 2, "a"], [3, 0, None], [2, 2, "b"], [1, 1, "a"]],
           "t2": [[1, 1, "x"], [2, 2, "y"], [1, 3, "z"], [2, 5, "y"], [1, 1, "w"], [7, 1, "q"]],
           "t3": [[1, 1], [2, 2], [1, 3], [2, 1]]}


def pk_family():
    t = lambda name, al: ("t", name, al)
    qs = []
    allc = [(C("x1", "a"), "c1"), (C("x1", "b"), "c2"), (C("x1", "c", STR), "c3")]
    for ords in ([(0, "asc"), (1, "asc"), (2, "asc")], [(0, "asc"), (1, "desc"), (2, "asc")], [(0, "desc"), (1, "asc"), (2, "desc")]):
        qs.append(dict(BASE, sel=allc, frm=t("t1", "x1"), ord=ords))
        qs.append(dict(BASE, sel=allc, frm=t("t1", "x1"), ord=ords, lim=4, off=2))
    qs.append(dict(BASE, sel=[(C("x1", "a"), "c1"), (C("x1", "b"), "c2"), (("agg", "count*"), "c3")], frm=t("t1", "x1"),
                   grp=[C("x1", "a"), C("x1", "b")], agg=True))
    qs.append(dict(BASE, sel=[(C("x1", "a"), "c1"), (C("x1", "b"), "c2")], frm=t("t1", "x1"), dist=True))
    on2 = AND(B("=", C("x1", "a"), C("x2", "a")), B("=", C("x1", "b"), C("x2", "b")))
    for jt in ("inner", "left"):
        qs.append(dict(BASE, sel=[(C("x1", "a"), "c1"), (C("x1", "b"), "c2"), (C("x1", "c", STR), "c3"), (C("x2", "c", STR), "c4")],
                       frm=("join", jt, t("t1", "x1"), t("t2", "x2"), on2)))
    qs.append(dict(BASE, sel=[(C("x1", "a"), "c1"), (C("x3", "b"), "c2")], frm=("join", "inner", t("t1", "x1"), t("t3", "x3"),
                   AND(B("=", C("x1", "a"), C("x3", "a")), B("=", C("x1", "b"), C("x3", "b"))))))
    return qs


def cases():
    out = []
    for q in family():
        for db in DATA:
            out.append({"db": {t: [list(r) for r in rows] for t, rows in db.items()}, "q": q, "sql": G.sql_query(q), "pk": False})
    for q in pk_family():
        out.append({"db": {t: [list(r) for r in rows] for t, rows in PK_DATA.items()}, "q": q, "sql": G.sql_query(q), "pk": True})
    # the outer-join filters again over key tables (column a is NOT NULL there: what holds for a base column does
    # not hold for the same column on the NULL-padded side of an outer join)
    t = lambda name, al: ("t", name, al)
    on1 = B("=", C("x1", "a"), C("x2", "a"))
    for jt, l, r in (("left", "t1", "t2"), ("left", "t2", "t1"), ("full", "t1", "t3")):
        if jt == "full":
            continue                      # FULL / RIGHT joins: recorded finding Q1
        for p in (ISN(C("x2", "a")), ISN(C("x2", "a"), True), OR(ISN(C("x2", "a")), B(">", C("x1", "b"), K(2))),
                  B("=", ("case", ISN(C("x2", "a")), K(1), K(0), INT), K(1))):
            for sel, extra in (([(C("x1", "a"), "c1"), (C("x1", "b"), "c2"), (C("x2", "a"), "c3")], {}),
                               ([(("agg", "count*"), "c1"), (("agg", "count", C("x2", "a"), INT), "c2")], {"agg": True})):
                q = dict(BASE, sel=sel, frm=("join", jt, t(l, "x1"), t(r, "x2"), on1), where=p, **extra)
                out.append({"db": {tt: [list(rr) for rr in rows] for tt, rows in PK_DATA.items()}, "q": q,
                            "sql": G.sql_query(q), "pk": True})
        q = dict(BASE, sel=[(C("x1", "a"), "c1"), (ISN(C("x2", "a")), "c2"), (ISN(C("x2", "b")), "c3")],
                 frm=("join", jt, t(l, "x1"), t(r, "x2"), on1))
        out.append({"db": {tt: [list(rr) for rr in rows] for tt, rows in PK_DATA.items()}, "q": q, "sql": G.sql_query(q), "pk": True})
    # 7. views: the derived-table members again with CREATE VIEW, a view joined with itself, a view over a view
    vq = [q for q in family() if q["frm"][0] == "sub" or (q["frm"][0] == "join" and "sub" in (q["frm"][2][0], q["frm"][3][0]))]
    agg_sub = dict(BASE, sel=[(C("y", "a"), "d1"), (("agg", "count", C("y", "b"), INT), "d2")], frm=t("t1", "y"), grp=[C("y", "a")], agg=True)
    d2 = [("d1", INT), ("d2", INT)]
    for jt in ("inner", "left"):
        vq.append(dict(BASE, sel=[(C("x1", "d1"), "c1"), (C("x1", "d2"), "c2"), (C("x2", "d2"), "c3")],
                       frm=("join", jt, ("sub", agg_sub, "x1", d2), ("sub", agg_sub, "x2", d2), B("=", C("x1", "d2"), C("x2", "d1")))))
        vq.append(dict(BASE, sel=[(C("x1", "d1"), "c1"), (C("x2", "d1"), "c2")], where=ISN(C("x2", "d1")) if jt == "left" else None,
                       frm=("join", jt, ("sub", agg_sub, "x1", d2), ("sub", agg_sub, "x2", d2), B("=", C("x1", "d2"), C("x2", "d1")))))
    inner = dict(BASE, sel=[(C("y", "a"), "d1"), (C("y", "b"), "d2")], frm=t("t1", "y"), where=ISN(C("y", "b"), True))
    outer = dict(BASE, sel=[(C("z", "d1"), "d1"), (("agg", "sum", C("z", "d2"), INT), "d2")], frm=("sub", inner, "z", d2), grp=[C("z", "d1")], agg=True)
    for p in (None, B(">", C("x", "d2"), K(1)), ISN(C("x", "d1"))):
        vq.append(dict(BASE, sel=[(C("x", "d1"), "c1"), (C("x", "d2"), "c2")], frm=("sub", outer, "x", d2), where=p))
    for k, q in enumerate(vq):
        for db in DATA[:2]:
            views, sql = G.sql_query_views(q)
            out.append({"db": {tt: [list(r) for r in rows] for tt, rows in db.items()}, "q": q, "sql": sql, "pk": False,
                        "views": views, "views_first": bool(k % 2)})
    return out
