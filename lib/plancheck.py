"""C17: every accepted query is planned into an executable plan (PlanWF.tla evaluated by TLC on the
optimizer's real output, plus no panic / no hang while planning, building and running)."""
import glob, json, os, random, re, time
from common import *
import sqlgen as G
import sqlcheck as S


# ----------------------------------------------------------------------------- s-expressions
def parse_sexpr(text):
    toks = re.findall(r"\(|\)|\"[^\"]*\"|'(?:[^']|'')*'|[^\s()]+", text)
    pos = 0

    def atom(t):
        if t.startswith('"') and t.endswith('"'):
            t = t[1:-1].replace(" ", "")
        if t == "list":
            return ["list"]
        if re.fullmatch(r"\$\d+\.\d+(\(\d+\))?", t):
            return ["@col", t]
        if re.fullmatch(r"\$\d+", t):
            return ["@tab", t]
        return ["@c", t]

    def node():
        nonlocal pos
        t = toks[pos]
        pos += 1
        if t == "(":
            if toks[pos] == ")":
                pos += 1
                return ["list"]
            op = toks[pos]
            pos += 1
            args = []
            while toks[pos] != ")":
                args.append(node())
            pos += 1
            return [op] + args
        return atom(t)
    n = node()
    return n


PLAN_CFGS = [{"disk": False, "mock": {}}, {"disk": True, "mock": {}},
             {"disk": True, "mock": S.MOCKS[0]}, {"disk": True, "mock": S.MOCKS[1]}]
CFG_NAMES = ["mem", "disk", "disk.mock0", "disk.mock1"]

PLANNING_PANICS = ("with overflow", "invalid digit", "divisor of zero", "not found from input", "Apply is not supported", "Unavailable(\"apply\")", "invalid join type",
                   "not a plan", "called `Option::unwrap()`", "called `Result::unwrap()`", "index out of bounds")

WIDE = dict(null_lit=False, inl_null=False, mod="const", touch_all=False, const_pred=True, order_const=True,
            agg_const=True, distinct_order=True, not_in_sub=True, sub_top_only=False, sel_needs_col=False, udf=True)


def signature(q, failure, where="?"):
    """Known classes of planning failures of the unchanged tree (known_findings.json)."""
    f = S.q_features(q) if q is not None else set()
    if "with overflow" in failure or "invalid digit" in failure or "divisor of zero" in failure:
        return "F18"                   # constant folding evaluates with panicking arithmetic
    if f & {"in_sub", "exists", "scalar"}:
        return "Q8"                    # subquery plans: Apply left over / column not produced
    if "distinct" in f and "order" in f and "not found from input" in failure:
        return "Q9"
    if any(x in f for x in ("join:right", "join:full", "join:left")) and "not found from input" in failure:
        return "Q10"
    return None


SUBQ_DB = {"t1": [[1, 1, "a"], [2, 2, "b"], [2, 2, "b"], [3, None, "ab"], [None, 0, ""]],
           "t2": [[1, 5, "a"], [2, 0, None], [4, 1, "b"]],
           "t3": [[1, 1], [2, 3], [2, None], [5, 0]]}


def subquery_corpus():
    """A fixed (seed-independent) family of subquery shapes: kind x correlation x inner filter x position in the
    outer query x outer FROM.  The (configuration, statement) pairs of this family that fail on the unchanged
    tree are listed one by one in known_subquery_failures.json (finding Q8); any other failure is a violation."""
    subs = []
    for w in ("", " where y.b > 1"):
        subs += [f"x1.a in (select y.a from t3 as y{w})", f"x1.a not in (select y.a from t3 as y{w})",
                 f"exists (select 1 from t3 as y{w})", f"not exists (select 1 from t3 as y{w})"]
        for f in ("max", "count", "sum"):
            subs.append(f"x1.b = (select {f}(y.b) from t3 as y{w})")
    subs += ["x1.a in (select y.a from t3 as y where y.b = x1.b)",
             "x1.a not in (select y.a from t3 as y where y.b = x1.b)",
             "exists (select 1 from t3 as y where y.a = x1.a)", "exists (select 1 from t3 as y where y.a < x1.a)",
             "exists (select 1 from t3 as y where y.a = x1.a and y.b > 0)",
             "not exists (select 1 from t3 as y where y.a = x1.a)",
             "x1.b >= (select count(y.b) from t3 as y where y.a = x1.a)",
             "x1.b < (select max(y.b) from t3 as y where y.a = x1.a)",
             "x1.b > (select y.a * sum(y.b) from t3 as y where y.a = x1.a group by y.a)",
             "x1.b < (select y.a + count(*) from t3 as y where y.a = x1.a group by y.a)",
             "x1.b = (select max(y.b) from t3 as y group by y.a having y.a = 1)"]
    outers = ["select x1.a, x1.b from t1 as x1 where {P}",
              "select x1.a, x2.b from t1 as x1 join t2 as x2 on x1.a = x2.a where {P}"]
    pos = ["{S}", "{S} and x1.b > 0", "({S} or x1.b > 1)", "not ({S})"]
    out = []
    for o in outers:
        for p in pos:
            for sq in subs:
                out.append(o.replace("{P}", p.replace("{S}", sq)))
    out += ["select x1.a, (select max(y.b) from t3 as y) from t1 as x1",
            "select x1.a, (select count(*) from t3 as y where y.a = x1.a) from t1 as x1",
            "select x1.a, (select y.a + sum(y.b) from t3 as y where y.a = x1.a group by y.a) from t1 as x1",
            "select x1.a from t1 as x1 where x1.a in (select y.a from t3 as y where y.b in (select z.b from t2 as z))"]
    # join conditions: several equalities, keys that are expressions, expressions mixing both inputs
    conds = ["x1.a = x2.a and x1.b = x2.b", "x1.a = x2.a and x1.b = x2.b * x1.a", "x1.a = x2.a and x1.b = x2.b - x1.a",
             "x1.a = x2.a and x1.b + x2.b = 3", "x1.a = x2.a and x1.b = x2.b and x1.c = x2.c",
             "x1.a = x2.a and x2.b = x1.b * 2", "x1.a + x2.a = 2 and x1.b = x2.b", "x1.a = x2.a and x1.a = x2.b",
             "x1.a = x2.a and x2.a = x1.b * x2.b", "x1.a = x2.b * x1.b", "x1.a * x2.a = x1.b",
             "x1.a = x2.a and x1.b = x2.b and x1.c = x2.c || x1.c", "x1.a = x2.a and x1.b - x2.b = x1.a and x1.c = x2.c",
             "x1.a + 1 = x2.a + 1 and x1.b * 2 = x2.b * 2"]
    for cnd in conds:
        out.append(f"select x1.a, x2.b from t1 as x1 join t2 as x2 on {cnd}")
        out.append(f"select x1.a, x2.b from t1 as x1 left join t2 as x2 on {cnd}")
        out.append(f"select x1.a, x2.b, x1.c from t1 as x1 cross join t2 as x2 where {cnd}")
        out.append(f"select count(*) from t1 as x1 join t2 as x2 on {cnd} join t3 as x3 on x3.a = x2.a")
    # IN lists whose members are columns: columns used only inside the list, members from the other join side
    for neg in ("", "not "):
        out += [f"select x1.a from t1 as x1 where x1.a {neg}in (x1.b, 2)",
                f"select x1.c from t1 as x1 where x1.a {neg}in (x1.b, x1.a + 1) order by x1.c",
                f"select count(*) from t1 as x1 where x1.b {neg}in (x1.a, 1, 3)",
                f"select x1.a, x2.b from t1 as x1 join t2 as x2 on x1.a {neg}in (x2.a, x2.b)",
                f"select x1.c from t1 as x1 join t2 as x2 on x1.a = x2.a where x1.b {neg}in (x2.b, 1)",
                f"select x1.a from t1 as x1 left join t2 as x2 on x1.a = x2.a where x1.a {neg}in (x2.b, 0)",
                f"select x1.a, count(*) from t1 as x1 where x1.a {neg}in (x1.b, 1) group by x1.a",
                f"select x1.a from t1 as x1 where x1.a {neg}in (x1.b) order by x1.a limit 2"]
    # sort keys that are not in the select list (ORDER BY [+ LIMIT / OFFSET] on a column, an aggregate, a column of
    # the other join side), with and without a filter on the key
    for tail in ("", " limit 2", " limit 1 offset 1", " offset 1"):
        out += [f"select x1.a from t1 as x1 order by x1.b{tail}", f"select x1.a from t1 as x1 order by x1.b desc, x1.c{tail}",
                f"select x1.c from t1 as x1 where x1.b > 0 order by x1.b{tail}",
                f"select x1.a, count(*) from t1 as x1 group by x1.a order by sum(x1.b){tail}",
                f"select x1.a from t1 as x1 group by x1.a order by max(x1.c) desc{tail}",
                f"select x1.a from t1 as x1 join t2 as x2 on x1.a = x2.a order by x2.b{tail}",
                f"select x1.a + 1 from t1 as x1 order by x1.a * 2, x1.b{tail}",
                f"select distinct x1.a from t1 as x1 order by x1.a{tail}"]
    # an ordered derived table whose sort keys nothing else uses, below a join and an aggregation
    for ordk in ("d1", "d1, d2", "d2"):
        inner1 = f"select x2.b as d1, (x2.a * 2) as d2, (x2.a + x2.a) as d3 from t2 as x2 order by {ordk}"
        inner3 = "select x4.b as d1, count(x4.a) as d2, min(x4.a) as d3 from t3 as x4 group by x4.b"
        out.append(f"select max(x3.d1) as c1, x3.d1 as c2, x1.d3 as c3 from ({inner1}) as x1 cross join ({inner3}) as x3 "
                   f"where (- x1.d3) > x1.d3 group by x3.d1, x1.d3")
        out.append(f"select x1.d3 as c1, count(*) as c2 from ({inner1}) as x1 join t3 as x3 on x1.d3 = x3.a group by x1.d3")
        out.append(f"select x1.d3 as c1 from ({inner1}) as x1 cross join t3 as x3 where x1.d3 > 0")
    # derived tables (subqueries in FROM): plain, computed, simplifiable, aggregated, joined, filtered
    for inner in ("select a, b from t1", "select a + 1 as s, b from t1", "select a + 0 as s, b from t1",
                  "select a * 1 as s, b from t1", "select a * b as s, b from t1", "select - (- a) as s, b from t1",
                  "select a as s, count(*) as b from t1 group by a", "select max(a) as s, min(b) as b from t1",
                  "select x.a as s, y.b as b from t1 as x join t3 as y on x.a = y.a",
                  "select distinct a as s, b from t1", "select a as s, b from t1 where b > 0 order by a limit 3",
                  "select distinct a + 1 as s, b from t1", "select distinct a as s, b * 2 as b from t1"):
        col = "a" if inner == "select a, b from t1" else "s"
        for outer in (f"select d.{col} from ({inner}) as d", f"select d.{col}, d.b from ({inner}) as d where d.b > 1",
                      f"select d.{col} + 1 from ({inner}) as d order by 1", f"select count(*), max(d.{col}) from ({inner}) as d",
                      f"select d.{col}, y.b from ({inner}) as d join t3 as y on d.{col} = y.a"):
            out.append(outer)
    return out


def known_subquery_failures():
    p = os.path.join(ROOT, "known_subquery_failures.json")
    if not os.path.exists(p):
        return set()
    return set(json.load(open(p))["failing"])


def slt_statements(path):
    """(kind, sql) records of a sqllogictest file; kind: ok | error | query"""
    recs, cur, kind = [], [], None
    for line in open(path, errors="replace"):
        line = line.rstrip("\n")
        if kind is None:
            m = re.match(r"^(statement|query)\s+(\S+)?", line)
            if m:
                kind = "query" if m.group(1) == "query" else ("error" if m.group(2) == "error" else "ok")
                cur = []
            continue
        if line.strip() == "" or line.startswith("----"):
            if cur:
                recs.append((kind, " ".join(cur)))
            kind, cur = (None, [])
            if line.startswith("----"):
                kind = "skip"
            continue
        if kind == "skip":
            continue
        cur.append(line.strip())
    if kind not in (None, "skip") and cur:
        recs.append((kind, " ".join(cur)))
    return recs


def check_c17(args):
    t0 = time.time()
    seed, tier = seed_tier(args)
    build()
    v = Verdict("C17")
    big = tier == "thorough"
    # ---- generated queries: the clean envelope plus the wide grammar (all join types, any ON,
    # correlated subqueries anywhere)
    n = 1500 if big else 160
    cases = S.gen_cases(seed * 71 + 4, n, [S.ENVELOPE, WIDE, S.ENVELOPE_INNER_ON, WIDE])
    runs = []
    for i, c in enumerate(cases):
        for eng in ("mem", "disk"):
            steps = [{"sql": s} for s in S.case_setup(c, eng, split_inserts=False)]
            steps.append({"sql": c["sql"], "plans": PLAN_CFGS if eng == "mem" else []})
            runs.append({"id": f"g{i}.{eng}", "engine": eng, "steps": steps})
    # ---- the fixed subquery family
    subq = subquery_corpus()
    known_subq = known_subquery_failures()
    for i, sql in enumerate(subq):
        for eng in ("mem", "disk"):
            steps = [{"sql": s} for s in G.setup_sql(SUBQ_DB, G.TABLES)]
            steps.append({"sql": sql, "plans": PLAN_CFGS if eng == "mem" else []})
            runs.append({"id": f"s{i}.{eng}", "engine": eng, "steps": steps})
    # ---- the repository's own corpus
    corpus = []
    for path in sorted(glob.glob("/repo/tests/sql/*.slt")):
        if os.path.basename(path).startswith("_"):
            continue
        recs = slt_statements(path)
        if not recs or any("include" in sql.lower()[:10] for _, sql in recs):
            continue
        for eng in ("mem", "disk"):
            steps = []
            for kind, sql in recs:
                st = {"sql": sql}
                if kind == "query" and sql.lower().lstrip().startswith("select") and eng == "mem":
                    st["plans"] = PLAN_CFGS[:2]
                steps.append(st)
            runs.append({"id": f"c{len(corpus)}.{eng}", "engine": eng, "steps": steps})
        corpus.append((path, recs))
    outs = run_sharded("sql", runs, tag="c17", timeout=3300, case_timeout=60)
    # ---- collect plans for TLC
    plan_recs, plan_meta = [], {}
    stats = {"queries": 0, "plans": 0, "executions": 0, "nontrivial": set(), "kinds": {}}

    def note(kind):
        stats["kinds"][kind] = stats["kinds"].get(kind, 0) + 1

    def failure(qinfo, q, what, msg, known_ok=True):
        where = qinfo.get("config") or ("exec." + qinfo.get("engine", "?"))
        if qinfo.get("source") == "subquery-family":
            key = f"{where}|{qinfo['sql']}"
            stats.setdefault("subq_failures", set()).add(key)
            fid = ("F33" if " from (select distinct" in qinfo["sql"] else
                   ("F34" if re.search(r"order by d\d(, d\d)?\) as", qinfo["sql"]) else "F32")) if " from (select" in qinfo["sql"] else \
                ("Q8" if "(select" in qinfo["sql"] else "Q2")
            if key in known_subq and v.is_known(fid):
                v.note_known(fid)
                note(f"known:{fid} (listed input)")
            else:
                v.violation(dict(qinfo, failure=what, message=msg),
                            f"{what} [{where}]: {msg[:140]} -- {qinfo['sql'][:220]} (not among the listed failing inputs of Q8 / F32)")
            return
        sig = signature(q, msg, where) if known_ok else None
        if sig and v.is_known(sig):
            v.note_known(sig)
            note(f"known:{sig}")
        else:
            v.violation(dict(qinfo, failure=what, message=msg), f"{what}: {msg[:160]} -- {qinfo.get('sql', '')[:200]}")

    for run, out in zip(runs, outs):
        rid = run["id"]
        fam = rid.startswith("s")
        gen = rid.startswith("g") or fam
        idx = int(rid[1:].split(".")[0])
        if out.get("hang"):
            q = cases[idx]["q"] if gen and not fam else None
            failure({"sql": run["steps"][-1]["sql"] if gen else corpus[idx][0], "engine": run["engine"],
                     "source": "subquery-family" if fam else "other"}, q,
                    "planning or execution did not terminate", f"no result within {out.get('limit_s')} s")
            continue
        if "fatal" in out:
            raise ToolError(str(out))
        for k, (st, r) in enumerate(zip(run["steps"], out["res"])):
            if "sql" not in st:
                continue
            is_query = gen and k == len(run["steps"]) - 1 or (not gen and "plans" in st) or \
                (not gen and st["sql"].lower().lstrip().startswith("select"))
            if not is_query:
                continue
            q = cases[idx]["q"] if gen and not fam else None
            qinfo = {"sql": st["sql"], "engine": run["engine"],
                     "source": "subquery-family" if fam else ("generated" if gen else corpus[idx][0])}
            stats["executions"] += 1
            if not r["ok"] and r.get("panic") and any(p in str(r.get("err")) for p in PLANNING_PANICS):
                failure(qinfo, q, "statement panicked", str(r.get("err")))
            elif r["ok"]:
                stats["nontrivial"].add(st["sql"])
            for cfgname, pl in zip(CFG_NAMES, r.get("plans") or []):
                stats["plans"] += 1
                if "err" in pl:
                    if pl.get("panic"):
                        failure(dict(qinfo, config=cfgname), q, "optimizer panicked", str(pl["err"]))
                    continue
                try:
                    rec = {"id": str(len(plan_recs)), "bound": parse_sexpr(pl["bound"]), "opt": parse_sexpr(pl["opt"])}
                except Exception as e:
                    note("unparsed plan")
                    continue
                plan_meta[rec["id"]] = (dict(qinfo, config=cfgname, plan=pl["opt"]), q)
                plan_recs.append(rec)
        stats["queries"] += 1
    # ---- TLC: WellFormed on every optimized plan
    if plan_recs:
        p = os.path.join(WORK, f"planwf-{os.getpid()}.ndjson")
        with open(p, "w") as f:
            for r in plan_recs:
                f.write(json.dumps(r) + "\n")
        r = tlc(os.path.join(SPEC, "PlanWF.tla"), os.path.join(SPEC, "mc", "PlanWF.cfg"), workers=1, timeout=3000,
                xmx="6g", env={"OBS": p}, tag=f"planwf-{os.getpid()}")
        got = 0
        for line in r["out"].splitlines():
            m = re.match(r'<<"WF", "(\d+)", (TRUE|FALSE), (TRUE|FALSE), (TRUE|FALSE)>>', line)
            if not m:
                continue
            got += 1
            info, q = plan_meta[m.group(1)]
            if m.group(2) == "FALSE":
                failure(info, q, "optimized plan contains an operator the executor lacks", "apply / in / exists / max1row left in the plan")
            elif m.group(3) == "FALSE":
                failure(info, q, "optimized plan is not well-formed", "an operator references a column its input does not produce, or join keys / residual are inconsistent (not found from input)")
            elif m.group(4) == "FALSE":
                failure(info, q, "optimized plan changes the number of output columns", "schema arity differs from the bound plan", known_ok=False)
        if got != len(plan_recs):
            i = r["out"].find("Error:")
            log(r["out"][i:i + 1500])
            log("obs file kept at", p)
            raise ToolError(f"PlanWF: {got}/{len(plan_recs)} verdicts")
    try:
        os.remove(os.path.join(WORK, f"planwf-{os.getpid()}.ndjson"))
    except OSError:
        pass
    if os.environ.get("VERIF_RECORD_SUBQ"):
        # maintenance aid (never used by a registered check): dump the failing pairs of the subquery family
        json.dump({"failing": sorted(stats.get("subq_failures", ()))}, open(os.environ["VERIF_RECORD_SUBQ"], "w"), indent=0)
    # ---- the catalog life cycle (Catalog.tla: every reachable catalog x every statement)
    import catalogcheck
    cat_stats = catalogcheck.catalog_part(seed, tier, v)
    rc = v.finish()
    write_evidence("C17", tier, seed, "translation_validation", {
        "programs": stats["plans"], "disagreements_checked": len(v.violations) + sum(n for k, n in stats["kinds"].items() if k.startswith("known")),
        "evaluations": stats["executions"], "distinct_nontrivial": len(stats["nontrivial"]),
        "samples": [{"sql": cases[0]["sql"]}, {"corpus_file": corpus[0][0], "statements": len(corpus[0][1])}],
        "rule": "bound and optimized plans of generated queries (clean envelope and the wide grammar with all join "
                "types and subqueries anywhere) and of every SELECT of tests/sql/*.slt, for 4 planner "
                "configurations (memory-like, disk-like, two mocked statistics); TLC evaluates WellFormed of PlanWF.tla "
                "on each optimized plan; every statement is also executed on both engines under a 60 s watchdog",
        "optimized_plans_checked_by_tlc": len(plan_recs), "corpus_files": len(corpus),
        "catalog_life_cycle": dict(cat_stats, rule="Catalog.tla (tables and views over 3 names; CREATE TABLE, CREATE VIEW "
                                   "over 1-2 objects, DROP [IF EXISTS] of any set, SELECT / INSERT / DELETE) checked by TLC "
                                   "(NoDangling, Acyclic; the deviation DanglingDrop is rejected); one behaviour per "
                                   "transition replayed on the real database: accepted / refused as specified, every name "
                                   "usable afterwards exactly as the specified catalog says, no panic"),
        "subquery_family": {"statements": len(subq), "failing_pairs_seen": len(stats.get("subq_failures", ())),
                            "failing_pairs_listed": len(known_subq)},
        "by_kind": stats["kinds"], "known_findings_seen": sorted(v.seen_known)},
        ["plans are read as s-expressions of planner::Expr; Schema() in PlanWF.tla is a transcription of "
         "planner/rules/schema.rs", "planning failures of queries with subqueries, of DISTINCT + ORDER BY and of outer "
         "joins with 'column not found' are recorded classes (Q8, Q9, Q10)"],
        time.time() - t0, len(v.violations))
    return rc
