"""C01, C02, C05 (SQL level): generated (database, query) cases run on both engines, with the optimizer
on and off and under mocked statistics; every observed result is validated by TLC against SqlSem.tla."""
import json, os, random, re, time
from common import *
import sqlgen as G

SPEC_OBS = os.path.join(SPEC, "SqlObs.tla")
CFG_OBS = os.path.join(SPEC, "mc", "SqlObs.cfg")

# The part of the grammar in which the unchanged tree is expected to be right.  Everything that is
# switched off here is a *recorded* defect class (known_findings.json, re-checked by its repro).
ENVELOPE = dict(null_lit=False, inl_null=False, jts=("inner", "inner", "left", "cross"), on=("eq",),
                mod="const", subq=("exists", "in", "scalar"), like=True, case=True, touch_all=True,
                const_pred=False, order_const=False, agg_const=False, distinct_order=False, countd=True,
                not_in_sub=False, not_exists=True, sub_top_only=True, sel_needs_col=True, derived=0.2, udf=True)
ENVELOPE_INNER_ON = dict(ENVELOPE, jts=("inner",), on=("eq", "eq+", "any"))


def gen_cases(seed, n, feats, pk=False):
    rnd = random.Random(seed)
    out = []
    for i in range(n):
        feat = feats[i % len(feats)]
        g = G.Gen(rnd, feat=feat)
        db = g.database()
        if pk:
            # a primary key column never holds NULL (and is declared so)
            for t in db:
                for row in db[t]:
                    if row[0] is None:
                        row[0] = rnd.choice([0, 1, 2, 3])
        q = g.query()
        if "scalar" in q_features(q):
            # Q11: the unnesting of a scalar subquery groups by all outer columns and so merges
            # duplicate outer rows; cases with a scalar subquery use tables without duplicate rows
            for t in db:
                db[t] = [list(r) for r in dict.fromkeys(tuple(r) for r in db[t])]
        # every third query with derived tables is written with a WITH clause instead
        # ... and every third one with views (created before or after the rows are inserted)
        views = []
        if i % 3 == 0:
            sql = G.sql_query_cte(q)
        elif i % 3 == 1:
            views, sql = G.sql_query_views(q)
        else:
            sql = G.sql_query(q)
        # every fourth case declares some integer columns with another width (join keys, group keys and
        # comparisons then meet INT, BIGINT and SMALLINT values; the prescribed answer does not change)
        coltypes = {("t2", "a"): "bigint", ("t3", "a"): "smallint", ("t1", "b"): "bigint", ("t3", "b"): "bigint"} if i % 4 == 3 else None
        out.append({"db": db, "q": q, "sql": sql, "pk": pk, "views": views, "views_first": bool(i % 2),
                    "coltypes": coltypes})
    return out


MOCKS = [{"t1": 1, "t2": 100000, "t3": 50}, {"t1": 100000, "t2": 3, "t3": 100000}]


def case_setup(c, eng, split_inserts=True):
    """The statements that build a case's database: tables (key / width variants), rows, views, functions."""
    pk = {t: "a" for t in G.TABLES} if (c.get("pk") and eng == "disk") else None
    setup = G.setup_sql(c["db"], G.TABLES, pk=pk, coltypes=c.get("coltypes"))
    if c.get("inserts"):
        # explicit layout: the case says how its rows are split into INSERTs (chunks / row-sets)
        setup = [s for s in setup if s.startswith("create")] + list(c["inserts"])
    elif eng == "disk" and split_inserts:
        # several row-sets per table: one INSERT per row pair
        setup = [s for s in setup if s.startswith("create")]
        for t, rows in c["db"].items():
            for k in range(0, len(rows), 2):
                part = rows[k:k + 2]
                setup.append(f"insert into {t} values " + ", ".join(
                    "(" + ", ".join(G.lit(v) for v in r) + ")" for r in part))
    if c.get("views"):
        creates = [s for s in setup if s.startswith("create")]
        rest = [s for s in setup if not s.startswith("create")]
        setup = creates + (c["views"] + rest if c.get("views_first") else rest + c["views"])
    return G.prelude(c["sql"] + " ".join(c.get("views") or [])) + setup


def to_run_cases(cases, engines=("mem", "disk"), mocks=True, split_inserts=True):
    """-> (harness cases, labels per harness case: list of (step index, label))"""
    runs, labels = [], []
    for i, c in enumerate(cases):
        for eng in engines:
            steps = [{"sql": s} for s in case_setup(c, eng, split_inserts)]
            lab = []
            steps.append({"sql": c["sql"]}); lab.append((len(steps) - 1, f"{eng}.on"))
            steps.append({"sql": "pragma disable_optimizer"})
            steps.append({"sql": c["sql"]}); lab.append((len(steps) - 1, f"{eng}.off"))
            steps.append({"sql": "pragma enable_optimizer"})
            if mocks:
                for m, mock in enumerate(MOCKS):
                    for t, n in mock.items():
                        steps.append({"sql": f"set mock_rowcount_{t} = {n}"})
                    steps.append({"sql": c["sql"]}); lab.append((len(steps) - 1, f"{eng}.mock{m}"))
            runs.append({"id": f"{i}.{eng}", "engine": eng,
                         "opts": {"block": c.get("block", 64 if i % 2 else 4096), "rowset": 268435456}, "steps": steps})
            labels.append(lab)
    return runs, labels


def collect(cases, runs, labels, outs):
    """Attach observations: case['obs'] = {label: rows | {'err':..,'panic':..,'hang':..}}"""
    per_case = {}
    for run, lab, out in zip(runs, labels, outs):
        i = int(run["id"].split(".")[0])
        obs = per_case.setdefault(i, {})
        if out.get("hang"):
            for _, l in lab:
                obs[l] = {"err": "hang", "hang": True}
            continue
        if "fatal" in out:
            raise ToolError(f"cannot open database: {out['fatal']}")
        # a failing setup statement invalidates the case (counted, not judged)
        nsetup = lab[0][0]
        if not all(r["ok"] for r in out["res"][:nsetup]):
            for _, l in lab:
                obs[l] = {"err": "setup failed: " + str([r.get("err") for r in out["res"][:nsetup] if not r["ok"]][:1]),
                          "setup": True}
            continue
        for idx, l in lab:
            r = out["res"][idx]
            if r["ok"]:
                obs[l] = {"rows": r["rows"], "types": r.get("types", [])}
            else:
                obs[l] = {"err": r.get("err", ""), "panic": bool(r.get("panic"))}
    for i, c in enumerate(cases):
        c["obs"] = per_case.get(i, {})


def validate(cases, tag):
    """E2: TLC evaluates Matches(q, db, rows) of SqlObs.tla for every successful observation and
    prints the result SqlSem prescribes."""
    ensure_dirs()
    p = os.path.join(WORK, f"sqlobs-{tag}-{os.getpid()}.ndjson")
    order = []
    with open(p, "w") as f:
        for i, c in enumerate(cases):
            labs = [l for l, o in c["obs"].items() if "rows" in o]
            order.append(labs)
            f.write(json.dumps({"id": str(i), "db": G.enc_db(c["db"]),
                                "q": G.res_query(c["q"], [], G.TABLES),
                                "obs": [c["obs"][l]["rows"] for l in labs]}) + "\n")
    r = tlc(SPEC_OBS, CFG_OBS, workers=1, timeout=3000, xmx="4g", env={"OBS": p},
            tag=f"sqlobs-{tag}-{os.getpid()}")
    V, E = {}, {}
    for line in r["out"].splitlines():
        m = re.match(r'<<"V", "(\d+)", <<(.*)>>>>$', line)
        if m:
            V[int(m.group(1))] = [x == "TRUE" for x in m.group(2).split(", ")] if m.group(2) else []
        m = re.match(r'<<"E", "(\d+)", "(.*)">>$', line)
        if m:
            E[int(m.group(1))] = json.loads(m.group(2).replace('\\"', '"'))
    os.remove(p)
    if len(V) != len(cases):
        k = r["out"].find("Error:")
        log(r["out"][k:k + 2500] if k >= 0 else r["out"][-3000:])
        bad = min(set(range(len(cases))) - set(V))
        log("first case without verdict:", cases[bad]["sql"])
        raise ToolError(f"result validation: {len(V)}/{len(cases)} verdicts from TLC")
    for i, c in enumerate(cases):
        c["expected"] = E[i]
        c["match"] = dict(zip(order[i], V[i]))
    return r


def dec(v):
    return None if v[0] == "n" else (v[1] if v[0] in ("i", "b") else "".join(chr(x) for x in v[1]))


def oracle_selfcheck(cases):
    """The specification itself is cross-checked against SQLite on every case (constructs on which
    SQLite and the standard agree).  A disagreement is a defect of SqlSem.tla / the SQL renderer."""
    agree = 0
    for c in cases:
        got = G.sqlite_rows(c["db"], G.TABLES, c["sql"], views=c.get("views") or ())
        if isinstance(got, tuple):
            continue
        e = [[dec(v) for v in row] for row in c["expected"]]
        e = [[int(x) if isinstance(x, bool) else x for x in row] for row in e]
        q = c["q"]
        if q["lim"] >= 0 or q["off"] > 0:
            ok = len(e) == len(got)
        else:
            ok = sorted(json.dumps(r) for r in e) == sorted(json.dumps(r) for r in got)
        if not ok:
            raise ToolError(f"SqlSem.tla disagrees with SQLite on: {c['sql']}\n  db={c['db']}\n  spec={e}\n  sqlite={got}")
        agree += 1
    return agree


# ------------------------------------------------------------------ known-finding signatures
def q_features(q):
    f = set()

    def walk(e):
        if not isinstance(e, tuple):
            return
        if e[0] == "insub":
            f.add("in_sub")
            if e[3]:
                f.add("not_in_sub")
        if e[0] == "exists":
            f.add("exists")
        if e[0] == "scalar":
            f.add("scalar")
        for x in e[1:]:
            if isinstance(x, tuple):
                walk(x)
            elif isinstance(x, dict):
                f.add("subquery")
                walk_q(x)

    def walk_from(fr):
        if fr[0] == "join":
            f.add("join:" + fr[1])
            if fr[4] is not None:
                walk(fr[4])
            walk_from(fr[2]); walk_from(fr[3])

    def walk_q(qq):
        for e, _ in qq["sel"]:
            walk(e)
        for e in [qq["where"], qq["hav"]] + list(qq["grp"]):
            if e is not None:
                walk(e)
        walk_from(qq["frm"])
        if qq["dist"]:
            f.add("distinct")
        if qq["ord"]:
            f.add("order")
        if qq["agg"]:
            f.add("agg")
    walk_q(q)
    return f


def has_subquery(q):
    return bool(q_features(q) & {"in_sub", "exists", "scalar"})


# ------------------------------------------------------------------ the run shared by C01/C02/C05
def run_sql_suite(seed, tier, tag, n_quick=220, n_thorough=2500):
    big = tier == "thorough"
    n = n_thorough if big else n_quick
    cases = gen_cases(seed * 7919 + 11, n, [ENVELOPE, ENVELOPE, ENVELOPE_INNER_ON])
    cases += gen_cases(seed * 104729 + 5, n // 3, [ENVELOPE], pk=True)
    # multi-chunk inputs for the operators that keep state across chunks (semi / anti joins, merge join, sort
    # aggregation, top-n): the medium family of C11
    cases += c11_medium_cases(seed * 89 + 3, 64 if big else 16, kinds=(3, 3, 0))
    # the directed family of query shapes the plan rules act on (all of it in the thorough tier, a third otherwise)
    import planfam
    pf = planfam.cases()
    cases += pf if big else pf[seed % 3::3]
    runs, labels = to_run_cases(cases)
    outs = run_sharded("sql", runs, tag=tag, timeout=3300, case_timeout=30)
    collect(cases, runs, labels, outs)
    validate(cases, tag)
    agree = oracle_selfcheck(cases)
    return cases, agree


def judge_suite(cases, v, pid):
    """Verdicts per property from the shared observations."""
    stats = {"cases": len(cases), "observations": 0, "nontrivial": set(), "rejected_by_binder": 0,
             "off_unavailable": 0, "errors": {}, "disagreements_checked": 0}
    for c in cases:
        q, obs, match = c["q"], c["obs"], c["match"]
        info = {"sql": c["sql"], "db": c["db"], "expected": c["expected"], "pk": c["pk"]}
        feats = q_features(q)
        if c["expected"]:
            stats["nontrivial"].add(c["sql"])
        # --- binder rejections: the same bind error everywhere -> not in the accepted language
        errs = [o for o in obs.values() if "err" in o]
        if errs and all("err" in o and (str(o["err"]).startswith(("bind error", "parse error")) or o.get("setup"))
                        for o in obs.values()):
            stats["rejected_by_binder"] += 1
            continue
        for lab, o in obs.items():
            eng, conf = lab.split(".")
            if "rows" in o:
                stats["observations"] += 1
                ok = match[lab]
                if pid == "C02" and not ok:
                    v.violation(dict(info, config=lab, observed=o["rows"]),
                                f"[{lab}] {c['sql']} returned {o['rows'][:6]}, SQL semantics gives {c['expected'][:6]}")
                if pid == "C01" and conf != "off" and not ok:
                    off = obs.get(f"{eng}.off", {})
                    off_ok = "rows" in off and match.get(f"{eng}.off")
                    stats["disagreements_checked"] += 1
                    v.violation(dict(info, config=lab, observed=o["rows"], unoptimized=off.get("rows"),
                                     unoptimized_matches_spec=bool(off_ok)),
                                f"[{lab}] optimized plan of {c['sql']} returned {o['rows'][:6]}; "
                                f"{'unoptimized plan and ' if off_ok else ''}SQL semantics give {c['expected'][:6]}")
            else:
                key = (conf if conf == "off" else "on", "panic" if o.get("panic") else ("hang" if o.get("hang") else "err"),
                       re.sub(r"[0-9]+", "N", str(o.get("err", "")))[:70])
                stats["errors"][key] = stats["errors"].get(key, 0) + 1
                if conf == "off":
                    stats["off_unavailable"] += 1
        if pid == "C05":
            for conf in ("on", "off", "mock0", "mock1"):
                a, b = obs.get(f"mem.{conf}"), obs.get(f"disk.{conf}")
                if not a or not b:
                    continue
                if ("rows" in a) != ("rows" in b):
                    # one engine answers, the other fails
                    if conf == "off":
                        continue        # unoptimized plans are not required to be executable
                    v.violation(dict(info, config=conf, mem=a, disk=b),
                                f"[{conf}] {c['sql']}: memory engine {'answers' if 'rows' in a else 'fails'}, "
                                f"disk engine {'answers' if 'rows' in b else 'fails'}")
                elif "rows" in a and match[f"mem.{conf}"] != match[f"disk.{conf}"]:
                    stats["disagreements_checked"] += 1
                    v.violation(dict(info, config=conf, mem=a["rows"], disk=b["rows"]),
                                f"[{conf}] {c['sql']}: memory and disk engines disagree "
                                f"(mem {a['rows'][:5]}, disk {b['rows'][:5]}, semantics {c['expected'][:5]})")
    return stats


def evidence_sql(pid, tier, seed, level, cases, stats, agree, v, t0, rule, assumptions, extra=None):
    samples = [{"sql": c["sql"], "db": c["db"], "expected": c["expected"][:4]} for c in cases[:3]]
    cov = {"evaluations": stats["observations"], "distinct_nontrivial": len(stats["nontrivial"]),
           "programs": len(cases), "disagreements_checked": stats["disagreements_checked"],
           "traces_validated_against_impl": stats["observations"],
           "rule": rule, "samples": samples, "rejected_by_binder": stats["rejected_by_binder"],
           "unoptimized_plan_not_executable": stats["off_unavailable"],
           "oracle_agreement_with_sqlite": agree,
           "failures_by_kind": {" | ".join(k): n for k, n in sorted(stats["errors"].items(), key=lambda kv: -kv[1])[:12]},
           "known_findings_seen": sorted(v.seen_known)}
    if extra:
        cov.update(extra)
    write_evidence(pid, tier, seed, level, cov, assumptions, time.time() - t0, len(v.violations))


RULE = ("cases = (database over {NULL,0..3} x {NULL,'','a','b','ab'}, <=5 rows per table; query of the "
        "bounded grammar: <=3-way inner/left/cross joins, WHERE with 3VL predicates, IN / EXISTS / scalar "
        "subqueries, GROUP BY + COUNT/SUM/MIN/MAX/COUNT DISTINCT + HAVING, DISTINCT, ORDER BY, "
        "LIMIT/OFFSET; derived tables written inline, as WITH clauses or as CREATE VIEW; IN lists over "
        "columns; calls of SQL functions; every fourth schema with BIGINT / SMALLINT columns), seeded; plus the "
        "directed plan-rule family; each run on memory and disk engine (several row-sets per table, "
        "primary-key variant), optimizer on / off / two mocked statistics; every result validated by "
        "TLC against SqlSem.tla; non-trivial = distinct queries whose prescribed result is non-empty")
ASSUME = ["the reference semantics is SqlSem.tla, itself cross-checked against SQLite on every case",
          "integers are small (no overflow), strings are short lowercase ASCII; floats, decimals, dates "
          "are outside the TLA+ value model",
          "constructs in which the unchanged tree is known to be wrong are excluded from generation and "
          "re-checked by their recorded repro (known_findings.json)"]


def check_c02(args):
    t0 = time.time()
    seed, tier = seed_tier(args)
    build()
    v = Verdict("C02")
    cases, agree = run_sql_suite(seed, tier, "c02")
    stats = judge_suite(cases, v, "C02")
    import sqlknown
    sqlknown.run_repros(v, "C02")
    rc = v.finish()
    evidence_sql("C02", tier, seed, "exploration", cases, stats, agree, v, t0, RULE, ASSUME)
    return rc


def check_c01(args):
    t0 = time.time()
    seed, tier = seed_tier(args)
    build()
    v = Verdict("C01")
    cases, agree = run_sql_suite(seed + 1000, tier, "c01")
    stats = judge_suite(cases, v, "C01")
    rstats = check_rules(seed, tier, v)
    # plan-level rules: the directed family of lib/planfam.py
    import planfam
    pcases = planfam.cases()
    pruns, plabels = to_run_cases(pcases)
    pouts = run_sharded("sql", pruns, tag="c01-plan", timeout=3000, case_timeout=30)
    collect(pcases, pruns, plabels, pouts)
    validate(pcases, "c01-plan")
    oracle_selfcheck(pcases)
    pstats = judge_suite(pcases, v, "C01")
    rstats["plan_rule_family"] = {"queries": len(pcases), "observations": pstats["observations"],
                                  "failures_by_kind": {" | ".join(k): n for k, n in pstats["errors"].items()}}
    import sqlknown
    sqlknown.run_repros(v, "C01")
    rc = v.finish()
    evidence_sql("C01", tier, seed, "translation_validation", cases, stats, agree, v, t0, RULE,
                 ASSUME + ["whole-optimizer validation (each optimized plan, real and mocked statistics, is compared "
                           "with the unoptimized plan and with the semantics) plus per-rule instantiation of the "
                           "expression rewrite rules read from src/planner/rules/expr.rs; plan-level rules "
                           "(rules/plan.rs, order.rs, range.rs) are only exercised through the generated queries"],
                 extra={"per_rule": rstats})
    return rc


def check_rules(seed, tier, v):
    """Per-rule half of C01: instances of every expression rewrite rule in filter, negated-filter and
    projection position (lib/rulecheck.py), decided by SqlObs.tla."""
    import rulecheck
    cases, rules, skipped = rulecheck.rule_cases(seed, tier)
    runs, labels = to_run_cases(cases, mocks=False)
    outs = run_sharded("sql", runs, tag="c01-rules", timeout=3000, case_timeout=30)
    collect(cases, runs, labels, outs)
    validate(cases, "c01-rules")
    key = lambda row: json.dumps(row[:3])
    nottrue = {}         # instance -> input rows (a, b, c) on which the instance is false or NULL
    for c in cases:
        if c["position"] == "projection" and c["q"]["where"] is None:
            nottrue[c["instance"]] = {key(r) for r in c["expected"] if r[3] != ["b", 1]}
    n_obs, by_pos, bad_rules = 0, {}, set()
    for c in cases:
        for lab, o in c["obs"].items():
            eng, conf = lab.split(".")
            if conf != "on":
                continue
            by_pos[c["position"]] = by_pos.get(c["position"], 0) + 1
            info = {"sql": c["sql"], "db": c["db"], "rule": c["rule"], "position": c["position"],
                    "instance": c["instance"], "config": lab, "expected": c["expected"]}
            if "rows" not in o:
                v.violation(dict(info, error=o), f"[{lab}] instance {c['instance']} of rule {c['rule']} "
                            f"({c['position']}) fails under the optimizer: {str(o.get('err'))[:150]}")
                continue
            n_obs += 1
            if c["match"][lab]:
                continue
            off = c["obs"].get(f"{eng}.off", {})
            off_ok = "rows" in off and c["match"].get(f"{eng}.off")
            # F28: rewrites that are only valid for filter conditions (they preserve "is true" but not the
            # difference between false and NULL: and-gt-lt-conflict folds NULL to false, eq-trans turns false into
            # NULL). Invisible in a filter; in a projection the cell flips between false and NULL; under NOT the
            # returned rows differ only on rows where the instance is not true.
            known = False
            if off_ok and v.is_known("F28"):
                exp, got = c["expected"], o["rows"]
                fn = (["n", 0], ["b", 0])
                if c["position"] == "projection" and len(exp) == len(got):
                    em = {key(r): r[3] for r in exp}
                    known = all(key(r) in em and (r[3] == em[key(r)] or (em[key(r)] in fn and r[3] in fn)) for r in got)
                elif c["position"] == "negated filter":
                    ok_rows = nottrue.get(c["instance"])
                    gk = [key(r) for r in got]
                    known = ok_rows is not None and len(set(gk)) == len(gk) and all(k in ok_rows for k in gk)
            if known:
                v.note_known("F28")
                bad_rules.add(c["rule"])
                continue
            v.violation(dict(info, observed=o["rows"], unoptimized_matches_spec=bool(off_ok)),
                        f"[{lab}] rule {c['rule']}: instance {c['instance']} in {c['position']} position returns "
                        f"{o['rows'][:5]}, the semantics give {c['expected'][:5]}")
    return {"rules_in_source": len(rules), "rules_instantiated": len(rules) - len(skipped),
            "rules_not_instantiated": skipped, "instances": len({c["instance"] for c in cases}),
            "queries": len(cases), "observations": n_obs, "by_position": by_pos,
            "rules_meeting_F28": sorted(bad_rules)}


# =========================================================================== C12 / C13 / C05
def layout_history(rnd, pk, ncols=3, dup_keys=False, pkcol="a"):
    """A table filled by several INSERTs, deletes and compactions; returns (steps, rows).  With pkcol = "b" the
    key is the second column (rows are generated as (key, other, c) and the first two positions swapped)."""
    steps, rows = _layout_history(rnd, pk, dup_keys)
    if pkcol == "b":
        for r in rows:
            r[0], r[1] = r[1], r[0]
        for st in steps:
            if "sql" in st and st["sql"].startswith("insert"):
                st["sql"] = re.sub(r"\(([^,()]+), ([^,()]+), ", lambda m: f"({m.group(2)}, {m.group(1)}, ", st["sql"])
            elif "sql" in st and st["sql"].startswith("delete"):
                st["sql"] = st["sql"].replace("where a ", "where b ")
    return steps, rows


def _layout_history(rnd, pk, dup_keys=False):
    rows, steps = [], []
    keys = list(range(0, 12))
    nins = rnd.choice([1, 2, 3, 4])
    for i in range(nins):
        batch = []
        # mostly small batches, now and then a large one (a row-set of several blocks with the small block sizes)
        for _ in range(rnd.choice([1, 2, 3, 5, 5, 14, 30])):
            a = rnd.choice(keys)
            if pk and not dup_keys:
                while any(r[0] == a for r in rows + batch):
                    a = rnd.choice(range(0, 150))
            b = rnd.choice([None, 0, 1, 2, 3])
            c = rnd.choice([None, "", "a", "b", "ab"])
            batch.append([a if pk else rnd.choice([None] + keys), b, c])
        if dup_keys and rnd.random() < 0.6:
            # one key many times: several blocks of the row-set begin with the same key
            hk = rnd.choice(keys)
            batch += [[hk, rnd.choice([None, 0, 1, 2, 3]), rnd.choice([None, "", "a", "b"])] for _ in range(rnd.choice([14, 25, 40]))]
            rnd.shuffle(batch)
        rows += batch
        steps.append({"sql": "insert into t1 values " + ", ".join(
            "(" + ", ".join(G.lit(v) for v in r) + ")" for r in batch)})
        k = rnd.random()
        if k < 0.15 and rows:
            # delete by key predicate
            cut = rnd.choice(keys)
            op = rnd.choice(["<", "=", ">="])
            keep = [r for r in rows if not (r[0] is not None and
                                            ((op == "<" and r[0] < cut) or (op == "=" and r[0] == cut) or
                                             (op == ">=" and r[0] >= cut)))]
            steps.append({"sql": f"delete from t1 where a {op} {cut}", "deleted": len(rows) - len(keep)})
            rows = keep
        elif k < 0.3 and rows:
            # scattered delete: positions all over every row-set's delete vector
            m, r0 = rnd.choice([2, 3, 4]), rnd.choice([0, 1])
            keep = [r for r in rows if not (r[0] is not None and r[0] % m == r0)]
            steps.append({"sql": f"delete from t1 where a % {m} = {r0}", "deleted": len(rows) - len(keep)})
            rows = keep
        elif k < 0.45:
            steps.append({"op": "compact"})
    return steps, rows


T1 = {"t1": G.TABLES["t1"]}


def order_query(rnd, rows, pkcol="a"):
    """select over t1 with ORDER BY / LIMIT / OFFSET (and a filter now and then)."""
    g = G.Gen(rnd, tables=T1, joins=False, feat=dict(ENVELOPE, subq=(), udf=False))
    scope = [("x1", c, ty) for c, ty in T1["t1"]]
    sel = [(("col", "x1", c, ty), f"c{i + 1}") for i, (c, ty) in enumerate(T1["t1"])]
    rnd.shuffle(sel)
    if rnd.random() < 0.45:
        sel = sel[:rnd.choice([1, 2])]          # a subset of the columns: the scan prunes the others
    sel = [(e, f"c{i + 1}") for i, (e, _) in enumerate(sel)]
    if rnd.random() < 0.3:
        sel.append((g.int_expr(scope, None, 1), f"c{len(sel) + 1}"))
    q = dict(sel=sel, frm=("t", "t1", "x1"), where=None, grp=[], hav=None, agg=False, dist=False, ord=[],
             lim=-1, off=0)
    if rnd.random() < 0.35:
        q["where"] = g.bool_expr(scope, None, 1)
    if rnd.random() < 0.8:
        idx = [i for i in range(len(sel)) if G.has_col(sel[i][0])]
        rnd.shuffle(idx)
        q["ord"] = [(i, rnd.choice(["asc", "desc"])) for i in idx[:rnd.choice([1, 2, 2, 3])]]
    if rnd.random() < 0.7:
        q["lim"] = rnd.choice([0, 1, 2, 5, 9, -1])
        q["off"] = rnd.choice([0, 0, 1, 2, 5, 13])
    if rnd.random() < 0.25:
        # an ordered derived table under an outer ORDER BY on the same keys in another sequence / direction, or on
        # more keys: the outer ORDER BY must not be taken for redundant
        cols = [("a", G.INT), ("b", G.INT), ("c", G.STR)]
        i, j = rnd.sample(range(3), 2)
        di, dj = rnd.choice(["asc", "desc"]), rnd.choice(["asc", "desc"])
        inner = dict(sel=[(("col", "y", c, ty), f"d{k + 1}") for k, (c, ty) in enumerate(cols)], frm=("t", "t1", "y"), where=None,
                     grp=[], hav=None, agg=False, dist=False, ord=[(i, di), (j, dj)], lim=-1, off=0)
        dcols = [(f"d{k + 1}", ty) for k, (_, ty) in enumerate(cols)]
        outer_ord = rnd.choice([[(j, dj), (i, di)], [(i, di), (j, "desc" if dj == "asc" else "asc")], [(j, dj)],
                                [(i, di), (j, dj), (3 - i - j, "asc")]])
        q = dict(sel=[(("col", "x1", n, ty), f"c{k + 1}") for k, (n, ty) in enumerate(dcols)],
                 frm=("sub", inner, "x1", dcols), where=None, grp=[], hav=None, agg=False, dist=False,
                 ord=outer_ord, lim=rnd.choice([-1, -1, 3, 7]), off=rnd.choice([0, 0, 2]))
        return q
    if pkcol != "a" and rnd.random() < 0.5:
        # the key is not the first column: scans that prune the columns in front of it and rely on key order
        cols = [("col", "x1", pkcol, G.INT)] + ([("col", "x1", "c", G.STR)] if rnd.random() < 0.6 else [])
        q["sel"] = [(e, f"c{i + 1}") for i, e in enumerate(cols)]
        q["where"] = None
        q["ord"] = [(0, "asc")] + ([(1, "desc")] if len(cols) > 1 and rnd.random() < 0.3 else [])
    return q


def range_query(rnd, rows, pkcol="a"):
    """select with a comparison predicate on the primary key (pushed into the scan as a key range)."""
    g = G.Gen(rnd, tables=T1, joins=False, feat=dict(ENVELOPE, subq=(), udf=False))
    scope = [("x1", c, ty) for c, ty in T1["t1"]]
    cols = [("col", "x1", c, ty) for c, ty in T1["t1"]]
    proj = rnd.choice([cols, cols[::-1], [cols[1], cols[2]], [cols[1], cols[0]], [cols[2], cols[0], cols[1]]])
    sel = [(e, f"c{i + 1}") for i, e in enumerate(proj)]
    key = ("col", "x1", pkcol, G.INT)
    kpos = 0 if pkcol == "a" else 1
    present = sorted({r[kpos] for r in rows if r[kpos] is not None}) or [0]
    allkeys = [r[kpos] for r in rows if r[kpos] is not None] or [0]
    def bound():
        b = bound_()
        # now and then the bound is an integer of another width than the key
        return ("widen", b, rnd.choice(["bigint", "smallint"]), G.INT) if rnd.random() < 0.2 else b

    def bound_():
        if rnd.random() < 0.5:
            return ("ci", rnd.choice(allkeys))          # weighted by frequency: keys with many duplicates
        return ("ci", rnd.choice(present + [min(present) - 1, max(present) + 1, rnd.choice(range(0, 15))]))
    k = rnd.random()
    if k < 0.5:
        pred = ("bin", rnd.choice(["=", "<", "<=", ">", ">="]), key, bound(), G.BOOL)
    elif k < 0.72:
        pred = ("bin", "and", ("bin", rnd.choice([">", ">="]), key, bound(), G.BOOL),
                ("bin", rnd.choice(["<", "<="]), key, bound(), G.BOOL), G.BOOL)
    elif k < 0.92:
        # an equality and another condition on the key (consistent or contradictory), in either sequence
        kb = ("ci", rnd.choice(allkeys))            # a key that is there
        eq = ("bin", "=", key, kb, G.BOOL) if rnd.random() < 0.7 else ("bin", "=", kb, key, G.BOOL)
        other = ("bin", rnd.choice(["=", "<", "<=", ">", ">="]), key, bound(), G.BOOL)
        pred = ("bin", "and", eq, other, G.BOOL) if rnd.random() < 0.5 else ("bin", "and", other, eq, G.BOOL)
    else:
        pred = ("bin", rnd.choice(["=", "<", ">="]), bound(), key, G.BOOL)      # constant on the left
    if rnd.random() < 0.4:
        pred = ("bin", "and", pred, g.bool_expr(scope, None, 0), G.BOOL)        # residual predicate
    q = dict(sel=sel, frm=("t", "t1", "x1"), where=pred, grp=[], hav=None, agg=False, dist=False, ord=[],
             lim=-1, off=0)
    if rnd.random() < 0.3:
        q["ord"] = [(rnd.randrange(len(sel)), rnd.choice(["asc", "desc"]))]
    return q


LAYOUTS = [{"block": 24, "rowset": 268435456}, {"block": 32, "rowset": 64}, {"block": 64, "rowset": 268435456},
           {"block": 16384, "rowset": 268435456}, {"block": 40, "rowset": 200}]


def layout_cases(seed, n, mkquery, pk_mode, dup_keys=False):
    rnd = random.Random(seed)
    cases = []
    for i in range(n):
        pk = pk_mode if isinstance(pk_mode, bool) else rnd.random() < 0.6
        # the key is not always the first column
        pkcol = "b" if pk and rnd.random() < 0.4 else "a"
        steps, rows = layout_history(rnd, pk, dup_keys=dup_keys, pkcol=pkcol)
        qs = [mkquery(rnd, rows, pkcol) for _ in range(4)]
        cases.append({"pk": pk, "pkcol": pkcol, "steps": steps, "rows": rows, "queries": qs,
                      "layout": LAYOUTS[i % len(LAYOUTS)]})
    return cases


def run_layout_cases(cases, tag, engines=("disk", "mem")):
    runs, labels = [], []
    for i, c in enumerate(cases):
        for eng in engines:
            pa = " primary key" if c["pk"] and c.get("pkcol", "a") == "a" else ""
            pb = " primary key" if c["pk"] and c.get("pkcol", "a") == "b" else ""
            steps = [{"sql": f"create table t1(a int{pa}, b int{pb}, c varchar)"}]
            steps += [dict(s) for s in c["steps"]]
            lab = []
            for k, q in enumerate(c["queries"]):
                sql = G.sql_query(q)
                steps.append({"sql": sql}); lab.append((len(steps) - 1, f"{eng}.on", k))
                steps.append({"sql": "pragma disable_optimizer"})
                steps.append({"sql": sql}); lab.append((len(steps) - 1, f"{eng}.off", k))
                steps.append({"sql": "pragma enable_optimizer"})
            runs.append({"id": f"{i}.{eng}", "engine": eng, "opts": c["layout"], "steps": steps})
            labels.append(lab)
    outs = run_sharded("sql", runs, tag=tag, timeout=3300, case_timeout=40)
    flat = []
    for run, lab, out in zip(runs, labels, outs):
        i = int(run["id"].split(".")[0])
        c = cases[i]
        if out.get("hang") or "fatal" in out:
            raise ToolError(f"layout case {run['id']}: {out}")
        # DML outcomes (C07-style counts) and setup sanity
        nsetup = 1 + len(c["steps"])
        c.setdefault("dml", {})[run["engine"]] = out["res"][:nsetup]
        for idx, l, k in lab:
            r = out["res"][idx]
            c.setdefault("qobs", {}).setdefault(k, {})[l] = (
                {"rows": r["rows"], "types": r.get("types", [])} if r["ok"]
                else {"err": r.get("err", ""), "panic": bool(r.get("panic"))})
    for c in cases:
        for k, q in enumerate(c["queries"]):
            flat.append({"db": {"t1": c["rows"]}, "q": q, "sql": G.sql_query(q), "pk": c["pk"],
                         "obs": c["qobs"][k], "layout": c["layout"], "history": [s.get("sql") or s.get("op") for s in c["steps"]]})
    return flat


def validate_t1(flat, tag):
    # SqlObs needs all tables of G.TABLES in db? no: only those referenced
    return validate(flat, tag)


def judge_flat(flat, v, pid, what):
    stats = {"observations": 0, "nontrivial": set(), "errors": {}, "disagreements_checked": 0}
    for c in flat:
        info = {"sql": c["sql"], "rows_of_t1": c["db"]["t1"], "layout": c["layout"], "pk": c["pk"],
                "history": c["history"], "expected": c["expected"]}
        if c["expected"] and (c["q"]["ord"] or c["q"]["where"] is not None):
            stats["nontrivial"].add(json.dumps([c["history"], c["sql"]]))
        for lab, o in c["obs"].items():
            if "rows" in o:
                stats["observations"] += 1
                if not c["match"][lab]:
                    stats["disagreements_checked"] += 1
                    v.violation(dict(info, config=lab, observed=o["rows"]),
                                f"[{lab}, {c['layout']}] {c['sql']} after {c['history']}: returned "
                                f"{o['rows'][:8]}, {what} gives {c['expected'][:8]}")
            else:
                key = (lab, "panic" if o.get("panic") else "err", re.sub(r"[0-9]+", "N", str(o.get("err", "")))[:70])
                stats["errors"][key] = stats["errors"].get(key, 0) + 1
                if lab.endswith(".on"):
                    v.violation(dict(info, config=lab, error=o), f"[{lab}] {c['sql']} failed: {o.get('err')}")
    return stats


def check_c12(args):
    t0 = time.time()
    seed, tier = seed_tier(args)
    build()
    v = Verdict("C12")
    n = 400 if tier == "thorough" else 45
    cases = layout_cases(seed * 31 + 7, n, order_query, None)
    # primary keys are not enforced unique: key tables with duplicate keys (the scan is ordered by the key only)
    cases += layout_cases(seed * 43 + 1, n // 3, order_query, True, dup_keys=True)
    flat = run_layout_cases(cases, "c12")
    validate_t1(flat, "c12")
    agree = oracle_selfcheck(flat)
    stats = judge_flat(flat, v, "C12", "ORDER BY / LIMIT / OFFSET semantics")
    import sqlknown
    sqlknown.run_repros(v, "C12")
    rc = v.finish()
    write_evidence("C12", tier, seed, "exploration", {
        "evaluations": stats["observations"], "distinct_nontrivial": len(stats["nontrivial"]),
        "rule": "tables with / without primary key filled by 1-4 INSERTs, key-predicate DELETEs and forced "
                "compactions on a grid of block / row-set sizes (several row-sets and blocks per table); "
                "queries with 1-3 ORDER BY keys asc/desc (key and non-key columns, NULLs), LIMIT and OFFSET "
                "in {0,1,2,5,absent}; memory and disk engine, optimizer on and off; TLC validates each "
                "result against SqlSem.tla (sortedness on the keys, permutation, slice, sub-bag for "
                "unordered LIMIT); non-trivial = ordered or filtered queries with a non-empty result",
        "samples": [{"history": c["history"], "sql": c["sql"], "layout": c["layout"]} for c in flat[:3]],
        "oracle_agreement_with_sqlite": agree, "disagreements_checked": stats["disagreements_checked"],
        "failures_by_kind": {" | ".join(k): n for k, n in stats["errors"].items()},
        "known_findings_seen": sorted(v.seen_known)}, ASSUME, time.time() - t0, len(v.violations))
    return rc


def check_c13(args):
    t0 = time.time()
    seed, tier = seed_tier(args)
    build()
    v = Verdict("C13")
    n = 400 if tier == "thorough" else 45
    cases = layout_cases(seed * 37 + 3, n, range_query, True)
    # duplicate key values spanning blocks (a primary key is not enforced to be unique)
    cases += layout_cases(seed * 41 + 9, n // 2, range_query, True, dup_keys=True)
    flat = run_layout_cases(cases, "c13")
    validate_t1(flat, "c13")
    agree = oracle_selfcheck(flat)
    stats = judge_flat(flat, v, "C13", "a full scan followed by the predicate")
    import sqlknown
    sqlknown.run_repros(v, "C13")
    rc = v.finish()
    write_evidence("C13", tier, seed, "exploration", {
        "evaluations": stats["observations"], "distinct_nontrivial": len(stats["nontrivial"]),
        "rule": "primary-key tables spread over several row-sets and many tiny blocks (with deletes and "
                "compactions); predicates =, <, <=, >, >=, two-sided ranges, constant on either side, keys "
                "present / absent / below / above all, residual predicates, five projections (key first, "
                "last, absent); optimizer on (range pushed into the scan) and off, memory and disk engine; "
                "TLC validates every result against SqlSem.tla",
        "samples": [{"history": c["history"], "sql": c["sql"], "layout": c["layout"]} for c in flat[:3]],
        "oracle_agreement_with_sqlite": agree, "disagreements_checked": stats["disagreements_checked"],
        "failures_by_kind": {" | ".join(k): n for k, n in stats["errors"].items()},
        "known_findings_seen": sorted(v.seen_known)},
        ASSUME + ["integer keys only (the range scan supports no other key type)"], time.time() - t0, len(v.violations))
    return rc


# =========================================================================== C05 statement sequences
def seq_case(rnd):
    """A statement sequence over t1 (maybe primary key / NOT NULL), t2, t3 with DML and queries."""
    pk = rnd.random() < 0.5
    nn = rnd.random() < 0.4
    # the primary key is not always the first column
    pkb = pk and rnd.random() < 0.45
    if pkb:
        nn = True
    # (b is sometimes a BIGINT column: its blocks end at other rows than those of the INT column a)
    bty = "bigint" if pk and not pkb and rnd.random() < 0.5 else "int"
    ddl = [f"create table t1(a int{' primary key' if pk and not pkb else ''}, "
           f"b {bty}{' primary key' if pkb else (' not null' if nn else '')}, c varchar)",
           "create table t2(a int, b int, c varchar)", "create table t3(a int, b int)"]
    steps = [{"sql": s, "kind": "ddl"} for s in ddl]
    # (no subqueries here: with the real, small row counts of the disk engine their plans panic -- Q8)
    used_keys = set()
    # primary keys are not enforced unique: half of the key tables get runs of equal keys that span several
    # blocks of one row-set (the key-range scan has to find both ends of such a run)
    dup = pk and not pkb and rnd.random() < 0.5
    # larger row-sets with contiguous runs of deleted rows: whole scan batches are hidden by a delete vector and the
    # column readers have to skip them (columns of different widths end their blocks at different rows)
    contig = pk and not pkb and not dup and rnd.random() < 0.4
    nextkey = 100
    # (tables of that size are queried without joins: the reference evaluation by TLC is a nested loop)
    big = dup or contig
    g = G.Gen(rnd, joins=not big, feat=dict(ENVELOPE, subq=(), derived=0.0 if big else 0.2))
    for _ in range(rnd.choice([5, 7, 9])):
        k = rnd.random()
        if pk and not pkb and len(steps) > 4 and rnd.random() < 0.25:
            k = 0.8          # (the key-range branch below)
        if contig and k < 0.3:
            n = rnd.choice([30, 45, 70])
            rows = [[nextkey + i, rnd.choice([0, 1, 2, 3] if nn else G.INTS), rnd.choice(G.STRS)] for i in range(n)]
            nextkey += n
            steps.append({"sql": "insert into t1 values " + ", ".join(
                "(" + ", ".join(G.lit(v) for v in r) + ")" for r in rows), "kind": "dml"})
        elif contig and k < 0.5 and nextkey > 100:
            lo = rnd.randrange(100, nextkey)
            hi = lo + rnd.choice([6, 12, 13, 20, 31])
            steps.append({"sql": f"delete from t1 where a >= {lo} and a < {hi}", "kind": "dml"})
        elif contig and k < 0.7:
            A = lambda c, ty=G.INT: ("col", "x1", c, ty)
            sel = rnd.choice([[(A("a"), "c1"), (A("b"), "c2")], [(A("a"), "c1"), (A("c", G.STR), "c2")], [(A("c", G.STR), "c1")],
                              [(A("a"), "c1"), (A("b"), "c2"), (A("c", G.STR), "c3")]])
            q = dict(sel=sel, frm=("t", "t1", "x1"), where=None, grp=[], hav=None, agg=False, dist=False, ord=[], lim=-1, off=0)
            if rnd.random() < 0.3:
                q = dict(q, sel=[(("agg", "max", A("a"), G.INT), "c1"), (("agg", "count", A("b"), G.INT), "c2")], agg=True)
            steps.append({"sql": G.sql_query(q), "kind": "query", "q": q})
        elif dup and k < 0.3:
            rows = []
            for _ in range(rnd.choice([1, 2, 3])):
                key = rnd.randrange(0, 12)
                used_keys.add(key)
                for _ in range(rnd.choice([1, 2, 8, 14, 20])):
                    rows.append([key, rnd.choice([0, 1, 2, 3] if nn else G.INTS), rnd.choice(G.STRS)])
            rnd.shuffle(rows)
            steps.append({"sql": "insert into t1 values " + ", ".join(
                "(" + ", ".join(G.lit(v) for v in r) + ")" for r in rows), "kind": "dml"})
        elif dup and k < 0.5:
            x = rnd.choice(sorted(used_keys) or [1])
            pred = rnd.choice([f"a = {x}", f"a <= {x}", f"a >= {x}", f"a >= {x} and a <= {x + rnd.choice([0, 1, 3])}",
                               f"a > {x - 2} and a <= {x}", f"a < {x}"])
            if rnd.random() < 0.3:
                steps.append({"sql": f"delete from t1 where {pred}", "kind": "dml"})
            else:
                A = lambda c, ty=G.INT: ("col", "x1", c, ty)
                m = re.fullmatch(r"a (=|<=|>=|<) (-?\d+)", pred)
                if m:
                    w = ("bin", m.group(1), A("a"), ("ci", int(m.group(2))), G.BOOL)
                else:
                    m = re.fullmatch(r"a (>=|>) (-?\d+) and a <= (-?\d+)", pred)
                    w = ("bin", "and", ("bin", m.group(1), A("a"), ("ci", int(m.group(2))), G.BOOL),
                         ("bin", "<=", A("a"), ("ci", int(m.group(3))), G.BOOL), G.BOOL)
                q = dict(sel=[(A("a"), "c1"), (A("b"), "c2"), (A("c", G.STR), "c3")], frm=("t", "t1", "x1"), where=w,
                         grp=[], hav=None, agg=False, dist=False, ord=[], lim=-1, off=0)
                steps.append({"sql": G.sql_query(q), "kind": "query", "q": q})
        elif k < 0.4:
            t = rnd.choice(["t1", "t1", "t2", "t3"])
            rows = []
            for _ in range(rnd.choice([1, 2, 3, 5])):
                if t == "t1" and pk and not pkb:
                    a = rnd.choice([x for x in range(0, 30) if x not in used_keys] + [None] * (1 if rnd.random() < 0.1 else 0))
                    if a is not None:
                        used_keys.add(a)
                else:
                    a = rnd.choice(G.INTS)
                b = rnd.choice(G.INTS if not (t == "t1" and nn) or rnd.random() < 0.1 else [0, 1, 2, 3])
                if t == "t1" and pkb:
                    b = rnd.choice([x for x in range(0, 30) if x not in used_keys])
                    used_keys.add(b)
                row = [a, b] if t == "t3" else [a, b, rnd.choice(G.STRS)]
                rows.append(row)
            steps.append({"sql": f"insert into {t} values " + ", ".join(
                "(" + ", ".join(G.lit(v) for v in r) + ")" for r in rows), "kind": "dml"})
        elif k < 0.5:
            steps.append({"sql": f"insert into t2 select a, b, c from t1 where b {rnd.choice(['<', '>=', '='])} {rnd.choice([0, 1, 2])}",
                          "kind": "dml"})
        elif k < 0.65:
            t = rnd.choice(["t1", "t1", "t2", "t3"])
            col = rnd.choice(["a", "a", "b"])
            op = rnd.choice(["=", "<", ">=", "<>"])
            steps.append({"sql": f"delete from {t} where {col} {op} {rnd.choice([0, 1, 2, 3, 7])}", "kind": "dml"})
        elif k < 0.72:
            steps.append({"op": "compact", "kind": "env"})
        elif pk and not pkb and 0.72 <= k < 0.84:
            # a key range (pushed into the scan by the disk engine only): what earlier DELETEs hid stays hidden
            A = lambda c, ty=G.INT: ("col", "x1", c, ty)
            v0 = rnd.choice([0, 1, 2, 3] if not big else ([7, 8, 9, 10, 11] if dup else [rnd.randrange(100, max(101, nextkey))]))
            w = rnd.choice([("bin", ">", A("a"), ("ci", v0), G.BOOL), ("bin", "<=", A("a"), ("ci", v0), G.BOOL),
                            ("bin", "=", A("a"), ("ci", v0), G.BOOL),
                            ("bin", "and", ("bin", ">=", A("a"), ("ci", v0), G.BOOL), ("bin", "<", A("a"), ("ci", v0 + 2), G.BOOL), G.BOOL)])
            q = dict(sel=[(A("a"), "c1"), (A("b"), "c2"), (A("c", G.STR), "c3")], frm=("t", "t1", "x1"), where=w, grp=[], hav=None,
                     agg=False, dist=False, ord=[], lim=-1, off=0)
            if rnd.random() < 0.6:
                # ... some of them by a DELETE just before, of one key or of the rows with a given b
                steps.append({"sql": rnd.choice([f"delete from t1 where a = {rnd.choice([v0, v0 + 1])}",
                                                 f"delete from t1 where b = {rnd.choice([0, 1, 2])}"]), "kind": "dml"})
            steps.append({"sql": G.sql_query(q), "kind": "query", "q": q})
            if rnd.random() < 0.3:
                steps.append({"sql": f"delete from t1 where {G.sql_expr(w)}", "kind": "dml"})
        elif pkb and k < 0.92:
            # scans that prune the column in front of the key and rely on key order
            A = lambda c, ty=G.INT: ("col", "x1", c, ty)
            sel = [(A("b"), "c1")] + ([(A("c", G.STR), "c2")] if rnd.random() < 0.6 else [])
            q = dict(sel=sel, frm=("t", "t1", "x1"), where=None, grp=[], hav=None, agg=False, dist=False,
                     ord=[(0, "asc")], lim=-1, off=0)
            if rnd.random() < 0.3:
                q = dict(q, sel=[(A("b"), "c1"), (("agg", "count*"), "c2")], grp=[A("b")], agg=True, ord=[])
            steps.append({"sql": G.sql_query(q), "kind": "query", "q": q})
        elif big:
            # (large tables: plain scans and filters only, the reference evaluation is quadratic in sorts and groups)
            A = lambda c, ty=G.INT: ("col", "x1", c, ty)
            sel = rnd.choice([[(A("a"), "c1"), (A("b"), "c2")], [(A("b"), "c1"), (A("c", G.STR), "c2")],
                              [(A("a"), "c1"), (A("b"), "c2"), (A("c", G.STR), "c3")]])
            w = rnd.choice([None, ("bin", ">=", A("b"), ("ci", 1), G.BOOL), ("isnull", A("c", G.STR), False, G.BOOL)])
            q = dict(sel=sel, frm=("t", "t1", "x1"), where=w, grp=[], hav=None, agg=False, dist=False, ord=[], lim=-1, off=0)
            steps.append({"sql": G.sql_query(q), "kind": "query", "q": q})
        else:
            q = g.query()
            steps.append({"sql": G.sql_query(q), "kind": "query", "q": q})
    # the SQL functions the statements call
    pre = G.prelude(" ".join(st.get("sql", "") for st in steps))
    steps = [{"sql": x, "kind": "ddl"} for x in pre] + steps
    return {"pk": pk, "nn": nn, "steps": steps}


C05_GRID = [{"block": 16384, "rowset": 268435456, "checksum": True, "first_key": True},
            {"block": 24, "rowset": 268435456, "checksum": False, "first_key": True},
            {"block": 40, "rowset": 96, "checksum": True, "first_key": True},
            {"block": 64, "rowset": 268435456, "checksum": True, "first_key": True}]


def check_c05(args):
    t0 = time.time()
    seed, tier = seed_tier(args)
    build()
    v = Verdict("C05")
    big = tier == "thorough"
    rnd = random.Random(seed * 17 + 9)
    seqs = [seq_case(rnd) for _ in range(500 if big else 60)]
    runs = []
    for i, sc in enumerate(seqs):
        for j, eng in enumerate(["mem"] + ["disk"] * (len(C05_GRID) if big else 2)):
            steps = []
            for s in sc["steps"]:
                if s["kind"] == "query":
                    # table contents right before the query (the memory run's answer is the db TLC uses)
                    for t in ("t1", "t2", "t3"):
                        steps.append({"sql": f"select * from {t}", "probe": t})
                steps.append({k: v2 for k, v2 in s.items() if k in ("sql", "op")} | {"kind": s["kind"]})
            opts = C05_GRID[(j - 1 + i) % len(C05_GRID)] if eng == "disk" else {}
            runs.append({"id": f"{i}.{j}", "engine": eng, "opts": opts, "steps": steps})
    outs = run_sharded("sql", runs, tag="c05", timeout=3300, case_timeout=60)
    by = {}
    for run, out in zip(runs, outs):
        i, j = (int(x) for x in run["id"].split("."))
        if out.get("hang") or "fatal" in out:
            raise ToolError(f"sequence {run['id']}: {out}")
        by.setdefault(i, {})[j] = (run, out)
    # ---- step-by-step comparison memory vs every disk configuration
    qcases, nsteps, nontriv = [], 0, set()
    for i, sc in enumerate(seqs):
        mrun, mout = by[i][0]
        for j in sorted(by[i]):
            if j == 0:
                continue
            drun, dout = by[i][j]
            diverged = False
            for k, (st, rm, rd) in enumerate(zip(mrun["steps"], mout["res"], dout["res"])):
                nsteps += 1
                info = {"sequence": [s.get("sql") or s.get("op") for s in mrun["steps"] if "probe" not in s][: k + 1],
                        "disk_options": drun["opts"], "step": st.get("sql") or st.get("op"), "memory": rm, "disk": rd}
                if rm["ok"] != rd["ok"]:
                    v.violation(info, f"`{info['step']}`: memory engine {'ok' if rm['ok'] else 'fails: ' + str(rm.get('err'))[:80]}, "
                                      f"disk engine ({drun['opts']}) {'ok' if rd['ok'] else 'fails: ' + str(rd.get('err'))[:80]}")
                    diverged = True
                    break
                if not rm["ok"] or "sql" not in st:
                    continue
                q = next((s.get("q") for s in sc["steps"] if s.get("sql") == st["sql"] and s["kind"] == "query"), None)
                a, b = rm["rows"], rd["rows"]
                same = sorted(json.dumps(r) for r in a) == sorted(json.dumps(r) for r in b)
                if q is not None and (q["lim"] >= 0 or q["off"] > 0) and not q["ord"]:
                    same = len(a) == len(b)
                elif q is not None and (q["lim"] >= 0 or q["off"] > 0):
                    keys = [i2 for i2, _ in q["ord"]]
                    same = [[r[x] for x in keys] for r in a] == [[r[x] for x in keys] for r in b]
                elif q is not None and q["ord"] and same:
                    keys = [i2 for i2, _ in q["ord"]]
                    same = [[r[x] for x in keys] for r in a] == [[r[x] for x in keys] for r in b]
                if not same:
                    v.violation(info, f"`{info['step']}`: memory engine returns {a[:6]}, disk engine ({drun['opts']}) {b[:6]}")
                    diverged = True
                    break
                if a:
                    nontriv.add(json.dumps(info["sequence"]))
            if diverged:
                continue
        # ---- queries are also validated against SqlSem on the contents the memory run reports
        db, obs_at = {}, []
        for k, (st, rm) in enumerate(zip(mrun["steps"], mout["res"])):
            if "probe" in st and rm["ok"]:
                db[st["probe"]] = [[dec(c) for c in row] for row in rm["rows"]]
            q = next((s.get("q") for s in sc["steps"] if "sql" in st and s.get("sql") == st["sql"] and s["kind"] == "query"), None) \
                if st.get("kind") == "query" else None
            if q is not None and len(db) == 3:
                obs = {}
                for j in sorted(by[i]):
                    r = by[i][j][1]["res"][k]
                    if r["ok"]:
                        obs["mem" if j == 0 else f"disk{j}"] = {"rows": r["rows"]}
                if obs:
                    qcases.append({"db": {t: list(rows) for t, rows in db.items()}, "q": q, "sql": st["sql"], "pk": sc["pk"], "obs": obs})
    if qcases:
        validate(qcases, "c05")
        oracle_selfcheck(qcases)
        for c in qcases:
            for lab, ok in c["match"].items():
                if not ok:
                    v.violation({"sql": c["sql"], "db": c["db"], "config": lab, "observed": c["obs"][lab]["rows"], "expected": c["expected"]},
                                f"[{lab}] {c['sql']} returned {c['obs'][lab]['rows'][:6]}, SQL semantics on the table contents gives {c['expected'][:6]}")
    import sqlknown
    sqlknown.run_repros(v, "C05")
    rc = v.finish()
    write_evidence("C05", tier, seed, "exploration", {
        "evaluations": nsteps, "distinct_nontrivial": len(nontriv),
        "rule": "statement sequences (CREATE with / without PRIMARY KEY and NOT NULL, multi-row INSERT with NULLs and "
                "constraint violations, INSERT..SELECT, DELETE WHERE p, forced compaction, queries of the C02 grammar) "
                "run on the memory engine and on the disk engine over an option grid (block 24..16384, row-set size "
                "forcing several row-sets per INSERT, checksum on/off); outcomes compared statement by statement "
                "(ok/err, DML counts, result bags, sequences on ORDER BY keys) and every query result also validated "
                "by TLC against SqlSem.tla; non-trivial = sequences with a non-empty compared result",
        "samples": [[s.get("sql") or s.get("op") for s in seqs[0]["steps"]]],
        "queries_validated_by_tlc": len(qcases), "known_findings_seen": sorted(v.seen_known)},
        ASSUME, time.time() - t0, len(v.violations))
    return rc


# =========================================================================== C11 physical operators
def op_kinds(plan_text):
    return sorted(set(re.findall(r"\((hashjoin|mergejoin|join|hashagg|sortagg|agg|topn|order|limit)\b", plan_text)))


def c11_cases(seed, n):
    """Join / aggregation / top-n queries whose physical implementation differs between the unoptimized
    plan (nested-loop join, order + limit), the optimized plan (hash join, hash aggregation, top-n) and
    the optimized plan on primary-key tables of the disk engine (merge join, sort aggregation)."""
    rnd = random.Random(seed)
    feats = dict(ENVELOPE, subq=(), jts=("inner", "inner", "left"), on=("eq",), like=False, udf=False)
    out = []
    for i in range(n):
        g = G.Gen(rnd, feat=feats)
        db = g.database()
        pk = i % 2 == 0
        if pk:
            for t in db:
                seen = set()
                rows = []
                for row in db[t]:
                    if row[0] is None or row[0] in seen:
                        row[0] = next(x for x in range(0, 50) if x not in seen)
                    seen.add(row[0])
                    rows.append(row)
                db[t] = rows
        kind = i % 3
        if kind == 0:          # join on the first column (merge join when both sides are key-ordered)
            t1, t2 = rnd.choice(list(G.TABLES)), rnd.choice(list(G.TABLES))
            jt = rnd.choice(["inner", "inner", "left"])
            keycol = "a" if rnd.random() < 0.7 else "b"
            on = ("bin", "=", ("col", "x1", keycol, G.INT), ("col", "x2", "a", G.INT), G.BOOL)
            if rnd.random() < 0.3:
                on2 = ("bin", "=", ("col", "x1", "b", G.INT), ("col", "x2", "b", G.INT), G.BOOL)
                on = ("bin", "and", on, on2, G.BOOL)
            frm = ("join", jt, ("t", t1, "x1"), ("t", t2, "x2"), on)
            scope = [("x1", c, ty) for c, ty in G.TABLES[t1]] + [("x2", c, ty) for c, ty in G.TABLES[t2]]
            sel = [(("col", a, c, ty), f"c{k + 1}") for k, (a, c, ty) in enumerate(scope)]
            q = dict(sel=sel, frm=frm, where=None, grp=[], hav=None, agg=False, dist=False, ord=[], lim=-1, off=0)
            if rnd.random() < 0.4 and jt == "inner":
                q["where"] = g.bool_expr(scope, None, 1)
        elif kind == 1:        # aggregation grouped by the key column (sort aggregation on key order)
            t1 = rnd.choice(list(G.TABLES))
            scope = [("x1", c, ty) for c, ty in G.TABLES[t1]]
            gcol = ("col", "x1", "a" if rnd.random() < 0.6 else "b", G.INT)
            aggs = [g.agg_expr(scope) for _ in range(rnd.choice([1, 2, 3]))]
            ngroup = rnd.random() < 0.8
            sel = ([gcol] if ngroup else []) + aggs
            q = dict(sel=[(e, f"c{k + 1}") for k, e in enumerate(sel)], frm=("t", t1, "x1"), where=None,
                     grp=[gcol] if ngroup else [], hav=None, agg=True, dist=False, ord=[], lim=-1, off=0)
        else:                  # ORDER BY + LIMIT (order then limit unoptimized, top-n optimized)
            t1 = rnd.choice(list(G.TABLES))
            scope = [("x1", c, ty) for c, ty in G.TABLES[t1]]
            sel = [(("col", a, c, ty), f"c{k + 1}") for k, (a, c, ty) in enumerate(scope)]
            idx = list(range(len(sel)))
            rnd.shuffle(idx)
            q = dict(sel=sel, frm=("t", t1, "x1"), where=None, grp=[], hav=None, agg=False, dist=False,
                     ord=[(j, rnd.choice(["asc", "desc"])) for j in idx[:rnd.choice([1, 2])]],
                     lim=rnd.choice([0, 1, 2, 3, -1]), off=rnd.choice([0, 0, 1, 2]))
        out.append({"db": db, "q": q, "sql": G.sql_query(q), "pk": pk})
    return out


def c11_medium_cases(seed, n, kinds=(0, 1, 2, 3, 4)):
    """Inputs of many chunks: 60-150 rows per table with runs of duplicate keys, stored with 64-byte blocks
    (a scan batch ends every ~12 rows) and in three INSERTs, so that groups of equal keys straddle the chunk
    boundaries the merge join / sort aggregation / top-n see."""
    rnd = random.Random(seed)
    out = []
    for i in range(n):
        dom = rnd.choice([12, 25, 40])
        n1, n2 = rnd.choice([60, 100, 150]), rnd.choice([10, 20, 40])

        def rows(k, nulls):
            rs = []
            while len(rs) < k:
                key = rnd.randrange(dom)
                for _ in range(rnd.choice([1, 1, 2, 3, 6, 14])):
                    rs.append([key, rnd.choice([None, 0, 1, 2, 3]), rnd.choice([None, "", "a", "b", "ab"])])
            rs = rs[:k]
            if nulls:
                for r in rnd.sample(rs, 3):
                    r[0] = None
            return rs
        pk = i % 4 != 3
        db = {"t1": rows(n1, not pk), "t2": rows(n2, not pk), "t3": []}
        ins = []
        for t in ("t1", "t2"):
            rs = list(db[t])
            rnd.shuffle(rs)
            db[t] = rs
            cuts = sorted(rnd.sample(range(1, len(rs)), 2))
            for part in (rs[:cuts[0]], rs[cuts[0]:cuts[1]], rs[cuts[1]:]):
                ins.append(f"insert into {t} values " + ", ".join("(" + ", ".join(G.lit(v) for v in r) + ")" for r in part))
        A = lambda al, c, ty=G.INT: ("col", al, c, ty)
        base = dict(where=None, grp=[], hav=None, agg=False, dist=False, ord=[], lim=-1, off=0)
        kind = kinds[i % len(kinds)]
        if kind == 4:
            # LIMIT / OFFSET straight over a scan of many batches (no ORDER BY: any rows of the right number),
            # also with ORDER BY under optimizer off (Limit over Order) and on (TopN)
            sel = [(A("x1", "a"), "c1"), (A("x1", "b"), "c2"), (A("x1", "c", G.STR), "c3")]
            q = dict(base, sel=sel, frm=("t", "t1", "x1"), lim=rnd.choice([1, 3, 10, 40]),
                     off=rnd.choice([0, 1, 2, 5, 12, 13, 24, 37, 59, 200]))
            if rnd.random() < 0.3:
                q["where"] = ("bin", ">=", A("x1", "b"), ("ci", 1), G.BOOL)
        elif kind == 3:
            # semi / anti join: hash (equality correlation) or nested loop (inequality correlation), the inner
            # side arrives in three chunks
            outer_t, inner_t = ("t1", "t2") if rnd.random() < 0.5 else ("t2", "t1")
            cop = rnd.choice(["=", "=", "<", ">"])
            corr = ("bin", cop, A("x2", "a"), A("x1", "a"), G.BOOL)
            if rnd.random() < 0.4:
                corr = ("bin", "and", corr, ("bin", rnd.choice([">", "<=", "="]), A("x2", "b"), ("ci", rnd.choice([0, 1, 2])), G.BOOL), G.BOOL)
            sub = dict(base, sel=[(("ci", 1), "s1")], frm=("t", inner_t, "x2"), where=corr)
            pred = ("exists", sub, rnd.random() < 0.5, G.BOOL)
            if rnd.random() < 0.3:
                pred = ("bin", "and", pred, ("bin", ">=", A("x1", "b"), ("ci", 1), G.BOOL), G.BOOL)
            sel = [(A("x1", "a"), "c1"), (A("x1", "b"), "c2"), (A("x1", "c", G.STR), "c3")]
            q = dict(base, sel=sel, frm=("t", outer_t, "x1"), where=pred)
        elif kind == 0:
            l, r = ("t1", "t2") if rnd.random() < 0.5 else ("t2", "t1")
            jt = rnd.choice(["inner", "inner", "left"])
            on = ("bin", "=", A("x1", "a"), A("x2", "a"), G.BOOL)
            sel = [(A("x1", "a"), "c1"), (A("x1", "b"), "c2"), (A("x2", "a"), "c3"), (A("x2", "c", G.STR), "c4")]
            q = dict(base, sel=sel, frm=("join", jt, ("t", l, "x1"), ("t", r, "x2"), on))
        elif kind == 1:
            g = A("x1", "a")
            aggs = [("agg", "count*"), ("agg", "sum", A("x1", "b"), G.INT), ("agg", "min", A("x1", "c", G.STR), G.STR),
                    ("agg", "countd", A("x1", "b"), G.INT)]
            sel = [g] + rnd.sample(aggs, 2)
            q = dict(base, sel=[(e, f"c{k + 1}") for k, e in enumerate(sel)], frm=("t", "t1", "x1"), grp=[g], agg=True)
        else:
            sel = [(A("x1", "a"), "c1"), (A("x1", "b"), "c2"), (A("x1", "c", G.STR), "c3")]
            q = dict(base, sel=sel, frm=("t", "t1", "x1"),
                     ord=[(0, rnd.choice(["asc", "desc"])), (1, rnd.choice(["asc", "desc"])), (2, "asc")],
                     lim=rnd.choice([1, 5, 13, 30]), off=rnd.choice([0, 11, 12, 13, 40]))
        out.append({"db": db, "q": q, "sql": G.sql_query(q), "pk": pk, "inserts": ins, "block": 64})
    return out


def check_c11(args):
    t0 = time.time()
    seed, tier = seed_tier(args)
    build()
    v = Verdict("C11")
    n = 1500 if tier == "thorough" else 180
    cases = c11_cases(seed * 83 + 6, n)
    cases += c11_medium_cases(seed * 89 + 1, 240 if tier == "thorough" else 36)
    # larger inputs (many chunks) by replication: every row k times scales every bag in closed form
    runs, labels = to_run_cases(cases)
    # ask for the plans too: which implementation each configuration used
    for run in runs:
        i = int(run["id"].split(".")[0])
        for st in run["steps"]:
            if st.get("sql") == cases[i]["sql"]:
                st["plans"] = [{"disk": run["engine"] == "disk", "mock": {}}]
                break
    outs = run_sharded("sql", runs, tag="c11", timeout=3300, case_timeout=30)
    collect(cases, runs, labels, outs)
    validate(cases, "c11")
    agree = oracle_selfcheck(cases)
    impl = {}
    for run, lab, out in zip(runs, labels, outs):
        if out.get("hang") or "fatal" in out:
            continue
        r = out["res"][lab[0][0]]
        pl = (r.get("plans") or [{}])[0]
        if "opt" in pl:
            for k in op_kinds(pl["opt"]):
                impl[f"{run['engine']}.on:{k}"] = impl.get(f"{run['engine']}.on:{k}", 0) + 1
            for k in op_kinds(pl["bound"]):
                impl[f"{run['engine']}.off:{k}"] = impl.get(f"{run['engine']}.off:{k}", 0) + 1
    stats = {"observations": 0, "nontrivial": set(), "disagreements_checked": 0, "errors": {}}
    for c in cases:
        info = {"sql": c["sql"], "db": c["db"], "pk": c["pk"], "expected": c["expected"]}
        oks = {l: c["match"][l] for l, o in c["obs"].items() if "rows" in o}
        stats["observations"] += len(oks)
        if c["expected"]:
            stats["nontrivial"].add(c["sql"])
        if oks and not all(oks.values()):
            stats["disagreements_checked"] += 1
            bad = [l for l, ok in oks.items() if not ok]
            good = [l for l, ok in oks.items() if ok]
            v.violation(dict(info, disagree=bad, agree_with_semantics=good,
                             observed={l: c["obs"][l]["rows"][:8] for l in bad}),
                        f"{c['sql']}: configurations {bad} return {c['obs'][bad[0]]['rows'][:6]}, "
                        f"{good or 'the semantics'} give {c['expected'][:6]}")
        for l, o in c["obs"].items():
            if "err" in o and not l.endswith(".off") and not str(o["err"]).startswith("bind error"):
                if has_subquery(c["q"]) and v.is_known("Q8") and l != "mem.on" and \
                        re.search("Apply is not supported|not found from input|Unavailable", str(o["err"])):
                    v.note_known("Q8")      # statistics-dependent subquery plans (recorded finding)
                    continue
                v.violation(dict(info, config=l, error=o), f"[{l}] {c['sql']} failed: {o['err'][:120]}")
    # vacuity: the implementations the property is about must all have been used
    need = ["mem.on:hashjoin", "disk.on:mergejoin", "mem.off:join", "mem.on:hashagg", "disk.on:sortagg", "mem.on:topn", "mem.off:order"]
    missing = [k for k in need if impl.get(k, 0) == 0]
    if missing:
        raise ToolError(f"C11 is vacuous: operator implementations never planned: {missing} (seen {impl})")
    import sqlknown
    sqlknown.run_repros(v, "C11")
    rc = v.finish()
    write_evidence("C11", tier, seed, "exploration", {
        "evaluations": stats["observations"], "distinct_nontrivial": len(stats["nontrivial"]),
        "rule": "equi-joins (inner / left, 1-2 keys incl. NULL and duplicate keys, empty sides, optional residual "
                "filter), grouped and global aggregations (COUNT/SUM/MIN/MAX/COUNT DISTINCT) and ORDER BY + "
                "LIMIT/OFFSET, each executed by the unoptimized plan (nested-loop join, simple/hash aggregation, "
                "order + limit), the optimized plan (hash join, hash aggregation, top-n), the optimized plan on "
                "primary-key tables of the disk engine (merge join, sort aggregation) and under two mocked "
                "statistics; all results validated by TLC against SqlSem.tla, so agreement with the semantics "
                "implies mutual agreement; the plans are recorded to prove which implementation ran",
        "samples": [{"sql": c["sql"], "pk": c["pk"]} for c in cases[:3]],
        "implementations_planned": impl, "disagreements_checked": stats["disagreements_checked"],
        "oracle_agreement_with_sqlite": agree, "known_findings_seen": sorted(v.seen_known)},
        ASSUME + ["RIGHT / FULL / SEMI / ANTI joins are not compared: right/full are recorded as broken (Q1), semi/anti "
                  "only arise from subqueries (Q3, Q8)", "keys of different integer widths are not generated"],
        time.time() - t0, len(v.violations))
    return rc
